// d_session.cpp — the object-level machine of spec/UriSession.tla driven through the real library (C07, C12).
// A script is a list of actions {op: buf|parse|own|norm|add|rem|free|scribble, ...}; scripts come from TLC (MC_Session emits every
// behaviour with the expected final state: spec -> code) or from the seeded generator below, which obeys the specification's enabling
// conditions (code -> spec: the recorded events are validated by Trace_Session).  Caller buffers are separate mappings, read-only during
// every library call, ending at a PROT_NONE page; "scribble" overwrites one (with 0xEE, with another URI of the same length) or makes
// it inaccessible (released).  After every action all usable slots are observed: projected, recomposed, re-parsed.
#include "vh.h"
#include "parse_common.h"
#include <memory>

static Text operator+(Text a,const Text&b){ a.insert(a.end(),b.begin(),b.end()); return a; }

template<class A> struct Sess {
  typedef typename A::Ch Ch; typedef typename A::Uri Uri;
  struct Buf { char* base=nullptr; size_t bytes=0; Ch* p=nullptr; size_t n=0; bool live=false; };
  struct Slot { Uri uri; bool held=false, valid=false, owner=false; std::set<std::string> deps; };
  std::vector<Buf> bufs; std::vector<Slot> slots; std::vector<Buf> graveyard; RecMM mm; bool usemm=false; bool dead=false; long obs=0;
  Sess(int ns,int nb,bool um):bufs(nb+1),slots(ns+1),usemm(um){ for(auto&s:slots) memset(&s.uri,0,sizeof s.uri); }
  ~Sess(){ for(auto&b:bufs) if(b.base) munmap(b.base,b.bytes+4096); for(auto&b:graveyard) if(b.base) munmap(b.base,b.bytes+4096); }
  static std::string bdep(int i){ return "b"+std::to_string(i); } static std::string sdep(int s){ return "s"+std::to_string(s); }
  bool usable(int s) const { return s>=1&&s<(int)slots.size()&&slots[s].held&&slots[s].valid; }
  std::set<std::string> depsof(int s) const { if(slots[s].owner) return {sdep(s)}; return slots[s].deps; }
  void invalidate(const std::string&d){ for(auto&s:slots) if(s.deps.count(d)) s.valid=false; }
  UriMemoryManager* M(){ return usemm? &mm.mm : nullptr; }
  // ---- enabling conditions (mirror of spec/UriSession.tla; Trace_Session re-checks them)
  bool can(const JV&a) const { const std::string&op=a["op"].s; auto S=[&](const char*k){ return (int)a[k].n; };
    auto sl=[&](int s){ return s>=1&&s<(int)slots.size(); }; auto bf=[&](int i){ return i>=1&&i<(int)bufs.size(); };
    if(op=="buf") return bf(S("i"))&&!bufs[S("i")].live;
    if(op=="parse") return sl(S("s"))&&bf(S("i"))&&!slots[S("s")].held&&bufs[S("i")].live;
    if(op=="own"||op=="norm") return usable(S("s"));
    if(op=="add") return sl(S("d"))&&!slots[S("d")].held&&usable(S("r"))&&usable(S("b"))&&S("d")!=S("r")&&S("d")!=S("b");
    if(op=="rem") return sl(S("d"))&&!slots[S("d")].held&&usable(S("s"))&&usable(S("b"))&&S("d")!=S("s")&&S("d")!=S("b");
    if(op=="free") return sl(S("s"))&&slots[S("s")].held;
    if(op=="scribble") return bf(S("i"))&&bufs[S("i")].live;
    if(op=="eq") return usable(S("a"))&&usable(S("b"));
    return false; }
  void protect_all(bool ro){ for(auto&b:bufs) if(b.base&&b.live) mprotect(b.base,b.bytes,ro?PROT_READ:(PROT_READ|PROT_WRITE)); }
  template<class F> int call(F f){ protect_all(true); int sig=guarded_call(f); protect_all(false); if(sig){ dead=true; } return sig; }
  std::string proj(int s){ return Proj<A>::uri(slots[s].uri); }
  void observe(int s){ if(dead||!usable(s)) return; ++obs;
    std::string val="{}", text="[]", re="{}"; int rrc=-1; int sig=call([&]{ val=proj(s); Text t; if(real_tostring<A>(slots[s].uri,t)){ text=jopt_some(t);
        std::basic_string<Ch> str=to_str<Ch>(t); Uri u2; const Ch*e; rrc=A::ParseSingleUri(&u2,str.c_str(),&e); if(rrc==URI_SUCCESS) re=Proj<A>::uri(u2); A::FreeUriMembers(&u2); } });
    J j; j.str("e","SObserve").num("w",A::W).num("s",s).num("fault",sig); if(!sig){ j.raw("val",val).raw("text",text).num("rrc",rrc); if(rrc==URI_SUCCESS) j.raw("re",re); } g.event_to(shard,j.done()); }
  void observe_all(){ for(int s=1;s<(int)slots.size();++s) observe(s); }
  size_t shard=0;
  // ---- allocation failure inside a session (episodes with the recording manager only): the k-th request of the NEXT library call fails
  void arm(long k){ mm.reset(); mm.failAt= usemm? k:0; mm.failFrom=false; }
  bool disarm(){ mm.failAt=0; for(auto&e:mm.log) if(e.kind!='f'&&e.ok==0) return true; return false; }
  void cleanup(Uri*u){ if(usemm) A::FreeUriMembersMm(u,&mm.mm); else A::FreeUriMembers(u); }
  // ---- actions
  void exec(const JV&a){ if(dead) return; const std::string&op=a["op"].s; auto S=[&](const char*k){ return (int)a[k].n; };
    if(!can(a)){ g.event_to(shard,J().str("e","SSkip").str("op",op).done()); return; }
    if(op=="buf"){ int i=S("i"); Text t=a["text"].text(); Buf&b=bufs[i]; if(b.base){ graveyard.push_back(b); b=Buf(); }
      size_t n=t.size(), bytes=((n*sizeof(Ch)+4095)/4096+1)*4096; b.base=(char*)mmap(nullptr,bytes+4096,PROT_READ|PROT_WRITE,MAP_PRIVATE|MAP_ANONYMOUS,-1,0); b.bytes=bytes; mprotect(b.base+bytes,4096,PROT_NONE);
      b.p=(Ch*)(b.base+bytes-n*sizeof(Ch)); for(size_t k=0;k<n;++k) b.p[k]=(Ch)t[k]; b.n=n; b.live=true;
      g.event_to(shard,J().str("e","SBuf").num("i",i).raw("text",jtext(t)).done()); return; }
    long fk= a.has("fail")? (long)a["fail"].n : 0;
    if(op=="parse"){ int s=S("s"), i=S("i"); Buf&b=bufs[i]; Slot&sl=slots[s]; const Ch*e=nullptr; int rc=-9; memset(&sl.uri,0x5A,sizeof sl.uri); arm(fk);
      int sig=call([&]{ rc= usemm? A::ParseSingleUriExMm(&sl.uri,b.p,b.p+b.n,&e,&mm.mm) : A::ParseSingleUriEx(&sl.uri,b.p,b.p+b.n,&e); }); bool mf=disarm();
      J j; j.str("e","SParse").num("w",A::W).num("s",s).num("i",i).num("rc",rc).num("fault",sig).boo("memfail",mf);
      if(!sig&&rc==URI_SUCCESS){ sl.held=true; sl.valid=true; sl.owner=false; sl.deps={bdep(i)}; j.raw("out",proj(s)); } else if(!sig){ if(rc==URI_ERROR_MALLOC) call([&]{ cleanup(&sl.uri); }); memset(&sl.uri,0,sizeof sl.uri); }
      g.event_to(shard,j.done()); if(!sig&&rc==URI_SUCCESS) observe(s); return; }
    // a failed in-place call leaves the URI in a state that may only be freed: the caller's ordinary clean-up follows at once
    auto failed_inplace=[&](int s){ Slot&sl=slots[s];
      // before the clean-up: the object a failed call leaves in the caller's hands must at least be safe to read (no pointer into memory the call released)
      { std::string v; int sg=call([&]{ v=proj(s); Text t; real_tostring<A>(sl.uri,t); }); g.event_to(shard,J().str("e","SAfterFail").num("w",A::W).num("s",s).num("fault",sg).done()); if(sg){ dead=true; return; } }
      call([&]{ cleanup(&sl.uri); }); if(sl.owner) invalidate(sdep(s)); sl=Slot(); memset(&sl.uri,0,sizeof sl.uri); };
    if(op=="own"){ int s=S("s"); Slot&sl=slots[s]; std::string pre=proj(s); int rc=-9; arm(fk); int sig=call([&]{ rc= usemm? A::MakeOwnerMm(&sl.uri,&mm.mm) : A::MakeOwner(&sl.uri); }); bool mf=disarm();
      J j; j.str("e","SMakeOwner").num("w",A::W).num("s",s).raw("pre",pre).num("rc",rc).num("fault",sig).boo("memfail",mf); if(!sig&&rc==URI_SUCCESS){ sl.owner=true; sl.deps.clear(); j.raw("out",proj(s)); } else if(!sig&&rc==URI_ERROR_MALLOC&&mf) failed_inplace(s); else dead=true;
      g.event_to(shard,j.done()); observe_all(); return; }
    if(op=="norm"){ int s=S("s"); unsigned m=(unsigned)a["m"].n; Slot&sl=slots[s]; std::string pre=proj(s); int rc=-9;
      arm(fk); int sig=call([&]{ rc= usemm? A::NormalizeSyntaxExMm(&sl.uri,m,&mm.mm) : (m==63&&(obs&1)? A::NormalizeSyntax(&sl.uri) : A::NormalizeSyntaxEx(&sl.uri,m)); }); bool mf=disarm();
      J j; j.str("e","SNormalize").num("w",A::W).num("s",s).num("m",m).raw("pre",pre).num("rc",rc).num("fault",sig).boo("memfail",mf);
      if(!sig&&rc==URI_SUCCESS){ if(m){ if(sl.owner) invalidate(sdep(s)); sl.owner=true; sl.deps.clear(); sl.valid=true; } j.raw("out",proj(s)); } else if(!sig&&rc==URI_ERROR_MALLOC&&mf) failed_inplace(s); else dead=true;
      g.event_to(shard,j.done()); observe_all(); return; }
    if(op=="add"||op=="rem"){ bool add=op=="add"; int d=S("d"), r=S(add?"r":"s"), b=S("b"); int o= add? (a["o"].b?1:0) : (a["md"].b?1:0); Slot&sd=slots[d]; std::string prer=proj(r), preb=proj(b); int rc=-9; memset(&sd.uri,0x5A,sizeof sd.uri); arm(fk);
      int sig=call([&]{ if(add) rc= usemm? A::AddBaseUriExMm(&sd.uri,&slots[r].uri,&slots[b].uri,(UriResolutionOptions)o,&mm.mm) : A::AddBaseUriEx(&sd.uri,&slots[r].uri,&slots[b].uri,(UriResolutionOptions)o);
                        else rc= usemm? A::RemoveBaseUriMm(&sd.uri,&slots[r].uri,&slots[b].uri,o?URI_TRUE:URI_FALSE,&mm.mm) : A::RemoveBaseUri(&sd.uri,&slots[r].uri,&slots[b].uri,o?URI_TRUE:URI_FALSE); });
      bool mf=disarm();
      J j; j.str("e",add?"SAddBase":"SRemoveBase").num("w",A::W).num("d",d).num(add?"r":"s",r).num("b",b).num(add?"opt":"mode",o).raw(add?"prer":"pres",prer).raw("preb",preb).num("rc",rc).num("fault",sig).boo("memfail",mf);
      if(!sig&&rc==URI_SUCCESS){ sd.held=true; sd.valid=true; sd.owner=(sd.uri.owner==URI_TRUE); sd.deps.clear(); if(!sd.owner){ sd.deps=depsof(r); if(add){ auto x=depsof(b); sd.deps.insert(x.begin(),x.end()); } } j.raw("out",proj(d)); Text t; j.raw("text", real_tostring<A>(sd.uri,t)? jopt_some(t):"[]"); }
      else if(!sig){ if(usemm) A::FreeUriMembersMm(&sd.uri,&mm.mm); else A::FreeUriMembers(&sd.uri); memset(&sd.uri,0,sizeof sd.uri); } else dead=true;
      if(!sig){ j.raw("postr",proj(r)).raw("postb",proj(b)); }
      g.event_to(shard,j.done()); if(!sig&&rc==URI_SUCCESS) observe(d); else if(!sig) observe_all(); return; }
    if(op=="free"){ int s=S("s"); Slot&sl=slots[s]; int sig=call([&]{ if(usemm) A::FreeUriMembersMm(&sl.uri,&mm.mm); else A::FreeUriMembers(&sl.uri); });
      if(sl.owner) invalidate(sdep(s)); sl=Slot(); memset(&sl.uri,0,sizeof sl.uri);
      g.event_to(shard,J().str("e","SFree").num("s",s).num("fault",sig).done()); observe_all(); return; }
    if(op=="eq"){ int x=S("a"), y=S("b"); std::string pa=proj(x), pb=proj(y); int res=-1, rev=-1; std::string ta="[]", tb="[]";
      int sig=call([&]{ res=A::EqualsUri(&slots[x].uri,&slots[y].uri); rev=A::EqualsUri(&slots[y].uri,&slots[x].uri); Text t; if(real_tostring<A>(slots[x].uri,t)) ta=jopt_some(t); if(real_tostring<A>(slots[y].uri,t)) tb=jopt_some(t); });
      g.event_to(shard,J().str("e","SEquals").num("w",A::W).num("a",x).num("b",y).raw("prea",pa).raw("preb",pb).num("res",res).num("rev",rev).raw("ta",ta).raw("tb",tb).boo("ro",pa==proj(x)&&pb==proj(y)).num("fault",sig).done()); return; }
    if(op=="scribble"){ int i=S("i"); int how=(int)a["how"].n; Buf&b=bufs[i];
      if(how==0) for(size_t k=0;k<b.n;++k) b.p[k]=(Ch)0xEE; else if(how==1) for(size_t k=0;k<b.n;++k) b.p[k]=(Ch)("x:/y?z#w@[]%41"[k%14]); else mprotect(b.base,b.bytes,PROT_NONE);
      b.live=false; invalidate(bdep(i)); g.event_to(shard,J().str("e","SScribble").num("i",i).num("how",how).done()); observe_all(); return; }
  }
  // end of episode: release everything, report what the manager still holds
  void finish(){ if(!dead){ for(int s=1;s<(int)slots.size();++s) if(slots[s].held){ JV a; a.k=JV::OBJ; JV op; op.k=JV::STR; op.s="free"; JV n; n.k=JV::NUM; n.n=s; a.o.push_back({"op",op}); a.o.push_back({"s",n}); exec(a); } }
    g.event_to(shard,J().str("e","SEnd").num("usemm",usemm).num("dead",dead).num("leak",(long long)(dead?0:mm.outstanding())).boo("bad",mm.bad).done()); mm.release_all(); }
};

static JV act(const char*op,std::initializer_list<std::pair<const char*,long long>> kv){ JV a; a.k=JV::OBJ; JV o; o.k=JV::STR; o.s=op; a.o.push_back({"op",o}); for(auto&p:kv){ JV n; n.k=JV::NUM; n.n=p.second; a.o.push_back({p.first,n}); } return a; }
static JV with_text(JV a,const Text&t){ JV arr; arr.k=JV::ARR; for(int c:t){ JV n; n.k=JV::NUM; n.n=c; arr.a.push_back(n); } a.o.push_back({"text",arr}); return a; }
static JV with_bool(JV a,const char*k,bool v){ JV b; b.k=JV::BOOL; b.b=v; a.o.push_back({k,b}); return a; }

// texts for the random sessions: every host kind, percent-encodings in both cases, dot segments, ':' and empty first segments
static Text random_uri(Rng&R){
  static const char* sc[]={"","s:","s:","s:","S:","t:"}; static const char* au[]={"","","//h","//H%41","//u%3a@Ex.COM:1","//[ABCD::1]","//[vF.a:B]","//1.2.3.4","//","//u@h:","//g:80"};
  static const char* seg[]={"",".","..","a","b","A","%41","%7e","%3A","%3a","%2e","%2E%2e","b:c","...","a%2Fb","x","1:2"}; static const char* qf[]={"","","?","?q","?a%41%3a","#","#f%7E","?q#f"};
  Text t=T(R.pick(std::vector<const char*>(sc,sc+6))); const char*a=au[R.below(11)]; t=t+T(a); bool abs=*a||R.below(2); int n=R.below(6); if(n==0&&!*a&&R.below(2)) abs=false;
  if(abs&&(n>0||R.below(2))) t.push_back('/'); for(int i=0;i<n;++i){ if(i) t.push_back('/'); t=t+T(seg[R.below(17)]); } return t+T(qf[R.below(8)]); }

template<class A> static void random_episode(Rng&R,int steps,size_t shard,const std::vector<Text>&pool){
  const int NS=5, NB=3; Sess<A> S(NS,NB,R.below(3)==0); S.shard=shard; g.event_to(shard,J().str("e","Reset").num("ns",NS).num("nb",NB).done());
  std::string desc; static const unsigned masks[]={63,63,8,8,0,1,2,4,16,32,12,55,0x48,0xFFFFFFFFu,0x40,0x80};
  for(int k=0;k<steps&&!S.dead;++k){ JV a; bool found=false;
    for(int attempt=0;attempt<6&&!found;++attempt){ int c=R.below(100);
      for(int tries=0;tries<12&&!found;++tries){
        if(c<10) a=with_text(act("buf",{{"i",1+R.below(NB)}}), R.below(4)? random_uri(R) : R.pick(pool));
        else if(c<26) a=act("parse",{{"s",1+R.below(NS)},{"i",1+R.below(NB)}});
        else if(c<36) a=act("own",{{"s",1+R.below(NS)}});
        else if(c<52) a=act("norm",{{"s",1+R.below(NS)},{"m",(long long)masks[R.below(16)]}});
        else if(c<70) a=with_bool(act("add",{{"d",1+R.below(NS)},{"r",1+R.below(NS)},{"b",1+R.below(NS)}}),"o",R.below(4)==0);
        else if(c<84) a=with_bool(act("rem",{{"d",1+R.below(NS)},{"s",1+R.below(NS)},{"b",1+R.below(NS)}}),"md",R.below(3)==0);
        else if(c<89) a=act("free",{{"s",1+R.below(NS)}});
        else if(c<93) a=act("eq",{{"a",1+R.below(NS)},{"b",1+R.below(NS)}});
        else a=act("scribble",{{"i",1+R.below(NB)},{"how",R.below(3)}});
        found=S.can(a); } }
    if(found && S.usemm && R.below(4)==0){ const std::string&o=a["op"].s; if(o=="parse"||o=="own"||o=="norm"||o=="add"||o=="rem"){ JV n; n.k=JV::NUM; n.n=1+R.below(6); a.o.push_back({"fail",n}); } }
    if(!S.can(a)) continue; desc+=a.dump(); g.set_case(J().str("driver","session").num("w",A::W).str("script",desc.size()>60000? desc.substr(desc.size()-60000):desc).done()); S.exec(a); }
  S.finish(); g.count(desc,true); }

template<class A> static bool replay_script(const JV&rec,size_t shard,int how){
  int ns=(int)rec["expect"].size(); Sess<A> S(ns,3,false); S.shard=shard; g.event_to(shard,J().str("e","Reset").num("ns",ns).num("nb",3).done());
  g.set_case(J().str("driver","session/script").num("w",A::W).raw("script",rec["script"].dump()).done());
  for(size_t k=0;k<rec["script"].size();++k){ JV a=rec["script"][k]; if(a["op"].s=="scribble"){ JV h; h.k=JV::NUM; h.n=how; a.o.push_back({"how",h}); } S.exec(a); }
  // the expected final state that TLC computed: which slots hold a URI is compared natively; the VALUES are decided by Trace_Session on the
  // recorded steps (it knows the relation for create-reference and the enabled deviations; a native text comparison here would not)
  bool ok=!S.dead; std::string why;
  for(int s=1;s<=ns&&ok;++s){ const JV&e=rec["expect"][s-1]; bool held=e["held"].n==1; if(held!=S.slots[s].held){ ok=false; why="slot "+std::to_string(s)+" held/empty differs"; } }
  if(S.dead){ why="memory fault inside a library call"; }
  if(!ok) g.violation(J().str("prop","C07").str("why","replayed TLC behaviour: "+why).raw("script",rec["script"].dump()).num("w",A::W).done());
  S.finish(); g.count(rec["script"].dump(),true); return ok; }

// Systematic histories ("chains"): the OUTPUT of every producing operation (resolve, create-reference, normalize, make-owner) is handed
// to every consuming operation in every operand position (resolve as reference / as base, create-reference as source / as base,
// normalize, compare, observe), over texts chosen so that the produced object differs from a freshly parsed one in its internals
// (merged paths ending in dot segments, dropped empty segments, guards put in front, owned vs borrowed text).
template<class A> static void chain_episode(const std::vector<JV>&script,size_t shard,bool usemm){
  Sess<A> S(5,3,usemm); S.shard=shard; g.event_to(shard,J().str("e","Reset").num("ns",5).num("nb",3).done()); std::string desc;
  for(auto&a:script){ if(S.dead) break; if(!S.can(a)) continue; desc+=a.dump(); g.set_case(J().str("driver","session/chain").num("w",A::W).str("script",desc).done()); S.exec(a); }
  S.finish(); g.count(desc,true); }
// every allocating operation x every kind of host on either operand x every failing request: short episodes, all with the recording manager
static void fault_scripts(std::vector<std::vector<JV>>&out){
  const char* hosts[]={"//h","//1.2.3.4","//[::1]","//[v7.Fe]","//u@H%41:80"};
  for(auto hr:hosts) for(auto hb:hosts) for(int op=0;op<4;++op) for(int k=1;k<=8;++k){ std::vector<JV> s; std::string r=std::string("s:")+hr+"/a/b/../c?q#f", b=std::string("s:")+hb+"/a/x/y";
    if(op>=2 && hr!=hb) continue;
    s.push_back(with_text(act("buf",{{"i",1}}),T(r.c_str()))); s.push_back(with_text(act("buf",{{"i",2}}),T(b.c_str())));
    s.push_back(act("parse",{{"s",1},{"i",1}})); s.push_back(act("parse",{{"s",2},{"i",2}}));
    JV a = op==0? with_bool(act("add",{{"d",3},{"r",1},{"b",2}}),"o",false) : op==1? with_bool(act("rem",{{"d",3},{"s",1},{"b",2}}),"md",false) : op==2? act("own",{{"s",1}}) : act("norm",{{"s",1},{"m",63}});
    JV n; n.k=JV::NUM; n.n=k; a.o.push_back({"fail",n}); s.push_back(a);
    s.push_back(act("eq",{{"a",1},{"b",2}})); s.push_back(with_bool(act("add",{{"d",4},{"r",2},{"b",2}}),"o",false));
    out.push_back(s); }
  // references that are nothing but "/" (and a query / fragment): the target's path is one fresh empty segment - its request failing
  for(auto hb:hosts) for(const char*r:{"/","/?q","/#f","/.","/..","//g","?q",""}) for(int k=1;k<=4;++k){ std::vector<JV> s; std::string b=std::string("s:")+hb+"/a/x/y";
    s.push_back(with_text(act("buf",{{"i",1}}),T(r))); s.push_back(with_text(act("buf",{{"i",2}}),T(b.c_str()))); s.push_back(act("parse",{{"s",1},{"i",1}})); s.push_back(act("parse",{{"s",2},{"i",2}}));
    JV a=with_bool(act("add",{{"d",3},{"r",1},{"b",2}}),"o",false); JV n; n.k=JV::NUM; n.n=k; a.o.push_back({"fail",n}); s.push_back(a); s.push_back(act("eq",{{"a",3},{"b",2}})); out.push_back(s); } }

// ownership after normalization / make-owner: every kind of authority (user info present, empty, absent x every host kind x port) and every
// mask that names some components but not others - then the source buffer is overwritten and the URI is read again (C12: after a non-zero
// mask or make-owner NOTHING of the URI may still live in the caller's text, whichever components the mask named)
static void ownership_scripts(std::vector<std::vector<JV>>&out){
  const char* auths[]={"","//h","//H","//u@h","//U%41@H%41:1","//1.2.3.4","//u@1.2.3.4:80","//[::1]","//u@[ABCD::1]","//@[::1]:2","//[v7.Fe]","//u@[v7.x]","//[v7.x:y]:80","//","//@","//:1","//u:p@"};
  const char* rests[]={"/p/q?k=v#f","?Q%41#F%42","","/a/../b/./c"}; const int masks[]={63,1,2,4,8,16,32,6,5,3,12,62,59,48,0};
  for(auto a:auths) for(auto r:rests) for(int m:masks) for(int how=0;how<2;++how){ std::vector<JV> s; std::string t=std::string("S:")+a+r; if(!*a && r[0]!='/' ) t=std::string("S:x")+r;
    s.push_back(with_text(act("buf",{{"i",1}}),T(t.c_str()))); s.push_back(act("parse",{{"s",1},{"i",1}}));
    if(m==0) s.push_back(act("own",{{"s",1}})); else s.push_back(act("norm",{{"s",1},{"m",m}}));
    s.push_back(act("scribble",{{"i",1},{"how",how*2}})); s.push_back(act("eq",{{"a",1},{"b",1}})); s.push_back(act("free",{{"s",1}})); out.push_back(s); } }
static void chain_scripts(std::vector<std::vector<JV>>&out){
  const char* bases[]={"s://h/a/b/c","s://h/a/b/","s:/a/b/c","s:a/b/c","s://u@h:1/a/b/c?q"};
  const char* refs[]={"x/.","x/y/.","x/..","./","../x/.","x/./y/..","..//x","x//","./x:y","../../..","?q2","","/.//x","//g/p/.."};
  const char* others[]={"s://h/a/b/x","s://h/a/b/x/y/z","s://h/a/b/","s://h/a/x","s:/a/b/x/y","s:a/b/x","s://h/a/b/x/"};
  for(auto b:bases) for(auto r:refs) for(auto o:others) for(int prod=0;prod<3;++prod){ std::vector<JV> s;
    s.push_back(with_text(act("buf",{{"i",1}}),T(b))); s.push_back(with_text(act("buf",{{"i",2}}),T(r))); s.push_back(with_text(act("buf",{{"i",3}}),T(o)));
    s.push_back(act("parse",{{"s",1},{"i",1}})); s.push_back(act("parse",{{"s",2},{"i",2}})); s.push_back(act("parse",{{"s",3},{"i",3}}));
    { JV a=with_bool(act("add",{{"d",4},{"r",2},{"b",1}}),"o",false); size_t idx=out.size();       // slot 4 = resolve(ref, base): the produced object
      if(idx%5==0 && (idx/5)%2==1){ JV n; n.k=JV::NUM; n.n=1+(long long)((idx/10)%7); a.o.push_back({"fail",n}); }   // every other manager episode: the k-th request of the resolution fails (k = 1..7 in turn)
      s.push_back(a); }
    if(prod==1) s.push_back(act("norm",{{"s",4},{"m",63}})); if(prod==2) s.push_back(act("own",{{"s",4}}));
    // consumers of slot 4, each into slot 5 (freed in between)
    s.push_back(with_bool(act("rem",{{"d",5},{"s",3},{"b",4}}),"md",false)); s.push_back(act("free",{{"s",5}}));
    s.push_back(with_bool(act("rem",{{"d",5},{"s",4},{"b",3}}),"md",false)); s.push_back(act("free",{{"s",5}}));
    s.push_back(with_bool(act("rem",{{"d",5},{"s",4},{"b",1}}),"md",true));  s.push_back(act("free",{{"s",5}}));
    s.push_back(with_bool(act("add",{{"d",5},{"r",2},{"b",4}}),"o",false));  s.push_back(act("free",{{"s",5}}));
    s.push_back(with_bool(act("add",{{"d",5},{"r",4},{"b",3}}),"o",true));   s.push_back(act("free",{{"s",5}}));
    s.push_back(act("eq",{{"a",4},{"b",3}})); s.push_back(act("norm",{{"s",4},{"m",8}})); s.push_back(act("eq",{{"a",4},{"b",3}}));
    s.push_back(with_bool(act("rem",{{"d",5},{"s",3},{"b",4}}),"md",false));
    out.push_back(s); } }

VH_DRIVER(session){
  std::string mode=arg_value(argc,argv,"--mode","random"); long n=atol(arg_value(argc,argv,"--n",g.thorough?"20000":"1500")); Rng R(g.seed);
  if(mode=="random"){ std::vector<Text> pool=corpus_uris(R,false,300); int steps=atoi(arg_value(argc,argv,"--steps",g.thorough?"30":"20"));
    for(long i=0;i<n;++i){ if(g.pair){ Rng R2=R; AW(true,true,[&]{ random_episode<ApiA>(R,steps,(size_t)i,pool); },[&]{ random_episode<ApiW>(R2,steps,(size_t)i,pool); },(size_t)i); } else if(i%2) random_episode<ApiA>(R,steps,(size_t)i,pool); else random_episode<ApiW>(R,steps,(size_t)i,pool); if(i%501==0) g.sample(J().str("episode","random session").num("steps",steps).num("index",i).done()); }
  } else if(mode=="chains"){ std::vector<std::vector<JV>> scripts; fault_scripts(scripts); ownership_scripts(scripts); size_t nfault=scripts.size(); chain_scripts(scripts); size_t total=scripts.size(); double keep= (long)(total-nfault)>n? (double)n/(total-nfault) : 1.0;
    for(size_t i=0;i<total;++i){ if(i>=nfault && keep<1.0 && (R.next()%1000000)>=keep*1000000) continue; bool um=(i<nfault)||(i%5==0);
      if(g.pair) AW(true,true,[&]{ chain_episode<ApiA>(scripts[i],i,um); },[&]{ chain_episode<ApiW>(scripts[i],i,um); },i); else if(__builtin_popcountl(i)&1) chain_episode<ApiA>(scripts[i],i,um); else chain_episode<ApiW>(scripts[i],i,um);
      if(i%211==0) g.sample(J().str("episode","chain").num("index",(long long)i).done()); }
  } else { auto lines=read_lines(arg_value(argc,argv,"--script","")); long k=0; for(auto&l:lines){ bool ok=true; JV rec=jparse_line(l,&ok); if(!ok||!rec.has("script")) continue; ++k;
      if(k%2) replay_script<ApiA>(rec,(size_t)k,(int)(k%3)); else replay_script<ApiW>(rec,(size_t)k,(int)(k%3)); if(k%997==0) g.sample(J().raw("script",rec["script"].dump()).done()); } }
  return 0;
}
