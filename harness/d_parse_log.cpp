// d_parse_log.cpp — records Parse events for TLC (Trace_Parse): C01, C02, C03, C04.
#include "vh.h"
#include "parse_common.h"
#include <uriparser/UriIp4.h>

static void cat(Text&a,const Text&b){ a.insert(a.end(),b.begin(),b.end()); }
static Text operator+(Text a,const Text&b){ cat(a,b); return a; }

// ---- accepted strings over an alphabet, by walking TLC's graph (only viable transitions are followed)
static void accepting_over(const std::vector<int>&alpha,int L,const Text&prefix,std::vector<Text>&out){
  Verdict v0=RT.judge(prefix); if(v0.k!=(int)prefix.size()) return;
  struct Rec{ static void go(int st,Text&cur,int left,const std::vector<int>&alpha,std::vector<Text>&out){
      if(RT.acc[st]) out.push_back(cur); if(!left) return;
      for(int c:alpha){ int t=RT.next[(size_t)st*RT.k+RT.class_of(c)]; if(t<0) continue; cur.push_back(c); go(t,cur,left-1,alpha,out); cur.pop_back(); } } };
  Text cur=prefix; Rec::go(v0.state,cur,L,alpha,out); }

static std::vector<int> A(const char*s){ std::vector<int> v; for(;*s;++s) v.push_back((unsigned char)*s); return v; }

// ---- systematic IPv6 / IPv4 literals (valid and near-valid)
static void ip_family(Rng&R,std::vector<Text>&out,bool thorough){
  static const char* oct[]={"0","9","10","99","100","199","200","249","250","255","256","260","299","300","01","1111","",
    "19","20","25","26","29","50","59","60"};   // (two-digit octets on every branch of the decimal-octet rules: 1x, 2[0-4], 25, 2[6-9], 5x, [6-9]x)
  std::vector<Text> hosts;
  int rounds=thorough?6:2;
  for(int r=0;r<rounds;++r)
  for(int before=0;before<=8;++before) for(int zip=0;zip<2;++zip) for(int after=0;after<=8;++after) for(int v4=0;v4<2;++v4){
    if(before+after+(v4?2:0)>9) continue;
    Text h; auto group=[&](Text&h){ int nd=1+R.below(4); if(R.below(8)==0) nd=5; for(int i=0;i<nd;++i){ const char*hx="0123456789abcdefABCDEF"; h.push_back(hx[R.below(22)]); } };
    for(int i=0;i<before;++i){ if(i) h.push_back(':'); group(h); }
    if(zip){ h.push_back(':'); h.push_back(':'); } else if(before&&(after||v4)) h.push_back(':');
    for(int i=0;i<after;++i){ if(i) h.push_back(':'); group(h); }
    if(v4){ if(after) h.push_back(':'); for(int i=0;i<4;++i){ if(i) h.push_back('.'); cat(h,T(oct[R.below(thorough?17:11)])); } }
    hosts.push_back(T("[")+h+T("]")); }
  for(auto a:oct) for(auto b:oct){ hosts.push_back(T(a)+T(".")+T(b)+T(".1.1")); hosts.push_back(T("1.1.")+T(a)+T(".")+T(b)); hosts.push_back(T("[::")+T(a)+T(".")+T(b)+T(".3.4]")); hosts.push_back(T("[::1.2.")+T(a)+T(".")+T(b)+T("]")); hosts.push_back(T("[1:2:3:4:5:6:")+T(b)+T(".2.3.")+T(a)+T("]")); }
  for(const char*f:{"[v1.a]","[vF.a:b]","[V1f.~!$&'()*+,;=:]","[v.a]","[v1.]","[v1a]","[vg.a]","[v1.a/]","[v1.%41]","[]","[:]","[::]","[:::]","[1]","[1:2:3:4:5:6:7:8]","[1:2:3:4:5:6:7:]","[1:2:3:4:5:6:7]","[1:2:3:4:5:6:7:8:]","[:1:2:3:4:5:6:7]","[1:2:3:4:5:6:7::8]","[1:2:3:4:5:6::7:8]","[::1:2:3:4:5:6:7:8]","[1:2:3:4:5:6:7:8::]","[1:2:3:4:5:6:7:8:9]","[1:2:3:4:5:6:7::]","[::1:2:3:4:5:6:7]","[1::2::3]","[12345::]","[::1.2.3]","[::1.2.3.4.5]","[1:2:3:4:5:6:1.2.3.4]","[1:2:3:4:5:6:7:1.2.3.4]","[::ffff:1.2.3.4]","[1.2.3.4]","[::1.2.3.4:5]"}) hosts.push_back(T(f));
  for(const char*f:{"255.255.255.255","192.168.100.200","100.100.100.100","255.255.255.25","25.255.255.255","255.255.255.2555","1.2.3.4","001.2.3.4","255.255.255.256","[::255.255.255.255]","[1:2:3:4:5:6:192.168.100.200]"}) hosts.push_back(T(f));
  for(auto&h:hosts){ out.push_back(T("//")+h); if(R.below(3)==0) out.push_back(T("s://u@")+h+T(":1/p")); if(R.below(5)==0) out.push_back(T("//")+h+T(":")); }
}

// ---- shapes whose meaning is decided late by an LL(1) parser: scheme vs first segment, host vs user info, port vs user info
// wchar_t only: a code point above 255 whose LOW BYTE (or low 16 bits) is an ASCII character is not that character - in every position
// of every construct (scheme, user info, reg-name, IPv4, IPv6, IPvFuture version and text, port, percent escapes, path, query, fragment)
static void wide_alias_family(std::vector<Text>&out){
  for(const char*b:{"s1+-.:a","http://u%4a:p@h.ex%41:80/p%2f;=/q?k=v&%7e#f%3A","//[v1a.x:y]/","//[vF1.~]","//[1:2:3:4:5:6:7:8]","//[::ffff:1.2.3.4]:8","//[a:B::c]:0","//1.2.3.4:5","//255.0.10.99","a/./../b","/a//b?","?q/?#","#f/?","a%41:b","//u@","//h:","s:/.//a","s:%2E%2e/x","//[::1]"}){
    Text t=T(b); for(size_t i=0;i<t.size();++i) for(int add:{256,0x10000,0x4100}){ Text v=t; v[i]+=add; out.push_back(v); } } }

// a percent-escape (one, two, three in a row) directly in front of and behind every delimiter, in every component, with and without user info
static void escape_adjacent_family(std::vector<Text>&out){
  for(const char*ui:{"","u@","u:p@","%41@","u%41:%42@"}) for(const char*h:{"%41","a%41","%41%42","%41a","a%41%42%43","caf%E9","%e9%E9x"}) for(const char*tail:{"",":",":80",":80/m","/","/p%41","/%41/%42%43?%44#%45","?q","?%41","#f","#%41%42"})
    for(const char*sc:{"","s:"}) out.push_back(T(sc)+T("//")+T(ui)+T(h)+T(tail));
  for(const char*p:{"%41","%41/","/%41","a%41:b","%41:b","s:%41","s:%41%42/%43","%41%42%43?%41%42%43#%41%42%43","/a%41","?%41","#%41","%41?","%41#"}) out.push_back(T(p)); }

static void late_shapes(std::vector<Text>&out){
  for(int n=1;n<=5;++n) for(int m=0;m<=4;++m){
    Text a(n,'a'), d(m,'1');
    for(const char*tail:{"","@","@h","@h:1","/","/x","?","#","@[::1]","@1.2.3.4",":",":@h","x@h","+@h"}){
      out.push_back(a+T(":")+d+T(tail)); out.push_back(T("//")+a+T(":")+d+T(tail)); out.push_back(T("s://")+a+T(":")+d+T(tail)); out.push_back(a+T(".+-")+T(":")+d+T(tail)); }
    out.push_back(a+T("@b")); out.push_back(T("//")+a+T("@")+d); out.push_back(T("%41")+a+T(":")+d); out.push_back(a+T("%41:")+d); out.push_back(T("//")+a+T("%41:")+d+T("@h")); out.push_back(T("1")+a+T(":")+d);
    out.push_back(T("//")+d+T(".")+d+T(".")+d+T(".")+d+a); out.push_back(T("//1.2.3.4")+a+T(":")+d); out.push_back(T("//1.2.3.")+d+T("@h")); out.push_back(T("//1.2.3.4:")+d+T("@h")); }
  for(const char*s:{"","/","//","///","////","?","#","??","##","#?","?#","/?#","//?#",":","a:","a:/","a://","a:///","a://h","a:?","a:#","//@","//:","//@:","//u@","//u@:1","//h:","//:1","s://h:1?q#f","s://h/a/b/c","s:a/b","s:/a//b/","a/b","./a:b","a//b","/a//","//h//","//h/","//h","s:","s:/","s:a","//h?","//h#","//h/?#","%41","a%","a%4","a%4g","a%41","/%","%zz"}) out.push_back(T(s));
}

std::vector<Text> corpus_uris(Rng&R,bool thorough,size_t want){
  std::vector<Text> out;
  static const char* sc[]={"","s:","S+1.-:","http:"};
  static const char* au[]={"","//","//h","//u@h","//h:1","//u:p@h:","//[::1]","//1.2.3.4","//[v1.x]","//EX%41.%3a","//@h","//h:"};
  static const char* pa[]={"","/","/a","/a/b","/a/","//","/a//b","a","a/b","a/","./a","../a","a/../b","/.","/..","/./a/../b/","%2e","/a%2Fb","/a:b","a@b","/;=","b:c/d"};
  static const char* qf[]={"","?","?q","?a=b&c","#","#f","?q#f","?#","?/?#/?","?%41#%zz"};
  while(out.size()<want){ Text t=T(sc[R.below(4)])+T(au[R.below(12)])+T(pa[R.below(22)])+T(qf[R.below(10)]); out.push_back(t); }
  (void)thorough; return out; }

// ---------------------------------------------------------------- the Parse event
template<class A> static std::string mem_of(ParseOut<A>&o,int ep,RecMM&mm,size_t&libc_mark){
  if(ep==5){ std::string s=mm.jlog(); return s; }
  std::vector<MemEv> v(g_libc_log.begin()+libc_mark,g_libc_log.end()); libc_mark=g_libc_log.size(); return jmemlog(v); }

template<class A> static std::string parse_event(Guarded&ar,const Text&placed,int ep,const std::string&trail,bool&accepted,int range_len=-1){
  typedef typename A::Ch Ch; RecMM mm; g_libc_log.clear(); g_libc_live.clear(); size_t mark=0;
  ParseOut<A> o=do_parse<A>(ar,placed,ep,&mm,range_len); Text in= range_len<0? placed : Text(placed.begin(),placed.begin()+range_len);
  J j; j.str("e","Parse").num("w",A::W).str("ep",EP_NAMES[ep]).raw("in",jtext(in)).num("rc",o.rc).num("epos",o.epos).num("fault",o.fault).str("trail",trail);
  accepted=(o.rc==URI_SUCCESS&&!o.fault);
  std::string mem=mem_of(o,ep,mm,mark);
  std::string str="[]",strown="[]"; int eqre=-1;
  if(o.fault){ j.raw("mem",mem).raw("refree","[]").raw("str","[]").raw("strown","[]").num("eqre",-1); return j.done(); }
  if(o.rc==URI_SUCCESS){
    j.raw("val",Proj<A>::uri(o.uri)).raw("spans",Proj<A>::spans(o.uri,o.first,o.afterLast));
    Text t; if(real_tostring<A>(o.uri,t)) str=jopt_some(t);
    // re-parse the recomposed text and compare with the first URI
    { std::basic_string<Ch> s2=to_str<Ch>(t); typename A::Uri u2; const Ch*e2; if(A::ParseSingleUri(&u2,s2.c_str(),&e2)==URI_SUCCESS){ eqre=(A::EqualsUri(&o.uri,&u2)&&A::EqualsUri(&u2,&o.uri))?1:0; A::FreeUriMembers(&u2);} else eqre=0; }
    // owned copy
    { int rc2= ep==5 ? A::MakeOwnerMm(&o.uri,&mm.mm) : A::MakeOwner(&o.uri); Text t2; if(rc2==URI_SUCCESS && real_tostring<A>(o.uri,t2)) strown=jopt_some(t2); }
  }
  mm.reset(); mark=g_libc_log.size();
  { LibScope ls; if(ep==5) A::FreeUriMembersMm(&o.uri,&mm.mm); else A::FreeUriMembers(&o.uri); }
  // on failure the call's own log must already be balanced; on success the first free completes it
  if(o.rc==URI_SUCCESS){ /* log of the regular cleanup is not part of the event */ }
  mm.reset(); mark=g_libc_log.size();
  { LibScope ls; if(ep==5){ A::FreeUriMembersMm(&o.uri,&mm.mm); A::FreeUriMembersMm(&o.uri,&mm.mm);} else { A::FreeUriMembers(&o.uri); A::FreeUriMembers(&o.uri);} }
  std::string refree=mem_of(o,ep,mm,mark);
  if(ep==5 && mm.outstanding()){ j.num("leak",(long long)mm.outstanding()); mm.release_all(); }
  j.raw("mem",mem).raw("refree",refree).raw("str",str).raw("strown",strown).num("eqre",eqre);
  return j.done(); }

static bool fits_char(const Text&s){ for(int c:s) if(c<0||c>255) return false; return true; }

// the stand-alone IPv4 parser (public: uriParseIpFourAddressA/W): range flush against a guard page
template<class A> static std::string ip4_event(Guarded&ar,const Text&in){ typedef typename A::Ch Ch; Ch*p=ar.put<Ch>(in,false); unsigned char oct[4]={0xEE,0xEE,0xEE,0xEE}; int rc=-9;
  int fault=guarded_call([&]{ rc= A::W==1 ? uriParseIpFourAddressA(oct,(const char*)p,(const char*)(p+in.size())) : uriParseIpFourAddressW(oct,(const wchar_t*)p,(const wchar_t*)(p+in.size())); });
  return J().str("e","Ip4").num("w",A::W).raw("in",jtext(in)).num("rc",rc).raw("bytes",jtext(Text{oct[0],oct[1],oct[2],oct[3]})).num("fault",fault).done(); }

struct LogState { Guarded ar; Guarded mid; long long n=0; LogState():ar(1<<16),mid(1<<16){} };

// log one input through the given entry points; identical A/W records are logged once
static void log_input(LogState&S,const Text&in,const std::vector<int>&eps,const std::string&trail="flush"){
  std::string key=jtext(in); g.set_case(J().str("driver","parse_log").raw("in",key).done());
  bool acc=false; std::unordered_set<uint64_t> seen;
  for(int ep:eps){ bool z=(ep==1||ep==2||ep==4); if(z && std::find(in.begin(),in.end(),0)!=in.end()) continue;
    if(g.pair){ if(fits_char(in)){ bool a=false; std::string ea=parse_event<ApiA>(S.ar,in,ep,trail,a), ew=parse_event<ApiW>(S.ar,in,ep,trail,a); acc=acc||a; g.event("{\"e\":\"Pair\",\"i\":0,\"a\":"+ea+",\"w\":"+ew+"}"); } continue; }
    for(int w=0;w<2;++w){ if(w==0&&!fits_char(in)) continue; bool a=false;
      std::string ev = w==0? parse_event<ApiA>(S.ar,in,ep,trail,a) : parse_event<ApiW>(S.ar,in,ep,trail,a); acc=acc||a;
      // de-duplicate records that differ only in width / entry point
      std::string sig=ev; size_t p=sig.find("\"w\":"); if(p!=std::string::npos) sig[p+4]='x'; size_t q=sig.find("\"ep\":\""); if(q!=std::string::npos){ size_t e=sig.find('"',q+6); sig.erase(q+6,e-(q+6)); }
      if(seen.insert(fnv(sig)).second) g.event(ev); } }
  g.count(key,!in.empty()); if(S.n%997==3) g.sample(J().raw("in",key).str("shown",show(in)).boo("accepted",acc).done()); ++S.n; }

VH_DRIVER(parse_log){
  if(!RT.load(arg_value(argc,argv,"--table","build/recognizer.tbl"))){ fprintf(stderr,"cannot load recognizer table\n"); return 2; }
  std::string mode=arg_value(argc,argv,"--mode","comp"); long want=atol(arg_value(argc,argv,"--n",g.thorough?"400000":"12000"));
  Rng R(g.seed); LogState S; std::vector<int> all={0,1,2,3,4,5};
  std::vector<Text> in;
  if(mode=="comp"||mode=="c04"){
    ip_family(R,in,g.thorough); late_shapes(in); wide_alias_family(in); escape_adjacent_family(in); size_t nforced=in.size();
    accepting_over(A("a1:/?#.%4@+-"),g.thorough?7:5,T(""),in);
    accepting_over(A("/a1:@[].%425v"),g.thorough?6:4,T("//"),in);
    accepting_over(A("]:.01259afFg"),g.thorough?7:5,T("//["),in);
    accepting_over(A("]:.0129a"),g.thorough?9:7,T("//[::"),in);
    { auto c=corpus_uris(R,g.thorough,2000); in.insert(in.end(),c.begin(),c.end()); }
    // random accepting walks, long
    for(int w=0;w<(g.thorough?200000:3000);++w){ Text s; int st=0; int len=R.below(40); for(int i=0;i<len;++i){ int c=R.below(RT.k); int tries=0; while(RT.next[(size_t)st*RT.k+c]<0&&tries<50){c=R.below(RT.k);++tries;} if(RT.next[(size_t)st*RT.k+c]<0) break; st=RT.next[(size_t)st*RT.k+c]; int cp=RT.reps[c]; int cand=R.below(256); if(RT.class_of(cand)==c) cp=cand; s.push_back(cp);} cat(s,RT.comp[st]); in.push_back(s); }
    // de-duplicate, then subsample deterministically to the requested volume (systematic families first)
    { std::unordered_set<uint64_t> seen; std::vector<Text> u; size_t kept=0; for(size_t i=0;i<in.size();++i) if(seen.insert(fnv(jtext(in[i]))).second){ u.push_back(in[i]); if(i<nforced) kept=u.size(); } in.swap(u); nforced=kept; }
    if((long)in.size()>want+(long)nforced){ std::vector<Text> keep(in.begin(),in.begin()+nforced); double step=(double)(in.size()-nforced)/want; for(long i=0;i<want;++i) keep.push_back(in[nforced+(size_t)(i*step)]); in.swap(keep); }
    for(auto&t:in) log_input(S,t, (S.n%8==0)? all : std::vector<int>{(int)(S.n%6)});
    // the same component checks for explicit ranges that do NOT end at the end of the buffer: what follows the range ('/', more of a
    // URI, a closing bracket, digits) must not leak into the components (short inputs first: a scheme, a lone '/', an authority start)
    { std::vector<Text> shorts; for(const char*s:{"","/","s:","s:/","file:/","//","//h","//h:","s://","a","a/","?","#","//[::1]","//1.2.3.4","s:a","/a","//u@","//h:1"}) shorts.push_back(T(s));
      for(size_t i=0;i<in.size();i+= g.thorough? 7:23) shorts.push_back(in[i]);
      const char* trails[]={"/","//x/y","///","]",":1","12.3","a%41","?#"};
      for(size_t i=0;i<shorts.size();++i) for(int tr=0;tr<8;++tr){ if(i>=19 && (int)((i+tr)%4)!=0) continue; Text whole=shorts[i]+T(trails[tr]); int k=(int)shorts[i].size(); int ep= (i+tr)%2? 3:5; bool a=false;
        if(g.pair){ if(fits_char(whole)) g.event("{\"e\":\"Pair\",\"i\":0,\"a\":"+parse_event<ApiA>(S.mid,whole,ep,"mid",a,k)+",\"w\":"+parse_event<ApiW>(S.mid,whole,ep,"mid",a,k)+"}"); }
        else { if(fits_char(whole)) g.event(parse_event<ApiA>(S.mid,whole,ep,"mid",a,k)); g.event(parse_event<ApiW>(S.mid,whole,ep,"mid",a,k)); }
        g.count(jtext(whole)+"|"+std::to_string(k),true); } }
    // uriParseIpFourAddress: every combination of boundary octets in each position, wrong part counts, leading zeros, stray characters
    { std::vector<std::string> oc={"0","9","10","99","100","199","200","249","250","255","256","260","299","300","999","00","01","1a","","25","2","19","20","26","29","50","59","60"}; std::vector<Text> fam;
      for(auto&a:oc) for(auto&b:oc){ fam.push_back(T((a+"."+b+".3.4").c_str())); fam.push_back(T(("1.2."+a+"."+b).c_str())); fam.push_back(T((a+".2.3."+b).c_str())); }
      for(const char*s:{"1.2.3","1.2.3.4.5","1.2.3.4.","1.2.3.",".1.2.3","1..2.3","1.2.3.4 ","1.2.3.4/","255.255.255.255","0.0.0.0","1.2.3.25","1.2.3.2","1,2,3,4","1.2.3.-4","1.2.3.+4","1.2.3.4\x00"}) fam.push_back(T(s));
      for(int c=1;c<256;c+=1){ Text t=T("1.2.3."); t.push_back(c); fam.push_back(t); }
      for(auto&t:fam){ if(t.empty()) continue; if(g.pair){ if(fits_char(t)) g.event("{\"e\":\"Pair\",\"i\":0,\"a\":"+ip4_event<ApiA>(S.ar,t)+",\"w\":"+ip4_event<ApiW>(S.ar,t)+"}"); } else { g.event(ip4_event<ApiA>(S.ar,t)); g.event(ip4_event<ApiW>(S.ar,t)); } g.count("ip4"+jtext(t),true); } }
  } else if(mode=="sample"){
    // cross-check of the native walker: random walks with edits + all strings <= 3 over the representatives (subsampled)
    for(long w=0;w<want;++w){ Text s; int st=0; int len=R.below(30); for(int i=0;i<len;++i){ int c=R.below(RT.k); int tries=0; while(RT.next[(size_t)st*RT.k+c]<0&&tries<50){c=R.below(RT.k);++tries;} if(RT.next[(size_t)st*RT.k+c]<0) break; st=RT.next[(size_t)st*RT.k+c]; int cp=RT.reps[c]; int cand=R.below(256); if(RT.class_of(cand)==c) cp=cand; s.push_back(cp);} if(R.below(2)) cat(s,RT.comp[st]);
      int edits=R.below(3); for(int e=0;e<edits&&!s.empty();++e){ int pos=R.below((int)s.size()); switch(R.below(3)){ case 0: s[pos]=R.below(300); break; case 1: s.erase(s.begin()+pos); break; default: s.insert(s.begin()+pos,RT.reps[R.below(RT.k)]); } }
      log_input(S,s,{(int)(w%6)}); }
    std::vector<Text> fam; ip_family(R,fam,false); late_shapes(fam); for(size_t i=0;i<fam.size();i+=3) log_input(S,fam[i],{(int)(i%6)});
  } else if(mode=="c03"){
    // every prefix of a longer text, parsed as an explicit range in the middle of a buffer with varying trailing content,
    // and flush against the guard page; the recorded outcome must be the specification's outcome for the range alone.
    std::vector<Text> texts; late_shapes(texts); ip_family(R,texts,false); { auto c=corpus_uris(R,false,600); texts.insert(texts.end(),c.begin(),c.end()); }
    // (these come FIRST and all of their prefixes are always run: every construct that ends a range - port digits behind an IP literal or
    // user info, escapes, each IP literal kind, the scheme / first-segment decision)
    std::vector<Text> forced; for(const char*s:{"s://u%41@h%4a:1/p%2Fq?a%5b#f%7E","//[::ffff:1.2.3.4]:80/","//[v1F.a:b]/","//[1:2:3:4:5:6:7:8]","http://user:pw@www.example.org:8080/a/b/../c?x=1&y=2#frag","//255.255.255.255:65535","a%41%42:b",
      "//[::1]:8080/x","ftp://user@host:21/","//u:p@1.2.3.4:99","//[vF.a]:443","//@:1","//h:65535?q#f","s:/a/b","s:a/b?q","/a/b#f","//u@[1::2]:3"}) forced.push_back(T(s));
    texts.insert(texts.begin(),forced.begin(),forced.end());
    std::vector<Text> trails={T("]"),T("0123456789"),T("abcdefABCDEF%41"),T(":@/?#[]"),Text(8,255),T("...1.1.1]")};
    // a syntax error AFTER a complete component: every kind of authority (each allocates differently) followed by every kind of
    // error in port / path / query / fragment, through all six entry points (the state-based ones do no second free of their own)
    { const char* auths[]={"//1.2.3.4","//u@1.2.3.4","//u:p@10.0.0.1:8080","//[::1]","//u@[::ffff:1.2.3.4]:80","//[v1.x]","//h","//u@h:1","s://1.2.3.4","//1.2.3.4:","//"};
      const char* errs[]={"/%","/%4","/%zz","/a/b/c%","/a b","/a/b[","?%","?q%4","?a b","#%","#f%zz","#a#b","/a?b#c%g",":x","/a/../%","/\\"};
      for(auto a:auths) for(auto e:errs) log_input(S,T(a)+T(e),all,"flush"); }
    size_t nf=forced.size(), lim= g.thorough? texts.size() : std::min<size_t>(texts.size(),nf+(size_t)want/20);
    double step= lim>nf? (double)(texts.size()-nf)/(lim-nf) : 1.0;
    for(size_t ti=0;ti<lim;++ti){ const Text&t= ti<nf? texts[ti] : texts[nf+(size_t)((ti-nf)*step)];
      for(size_t k=0;k<=t.size();++k){ Text pre(t.begin(),t.begin()+k);
        log_input(S,pre,{3,5,0},"flush");
        // in the middle of a larger buffer: the same range followed by other content (explicit-range entry points only)
        for(size_t tr=0;tr<trails.size();++tr){ if(!g.thorough && (k+tr+ti)%3) continue;
          Text whole=pre; Text rest(t.begin()+k,t.end()); cat(whole, tr==0? rest : trails[tr]); cat(whole,trails[(tr+1)%trails.size()]);
          if(g.pair){ if(fits_char(whole)){ bool a=false; int ep= (k+tr)%2? 3:5; std::string ea=parse_event<ApiA>(S.mid,whole,ep,"mid",a,(int)k), ew=parse_event<ApiW>(S.mid,whole,ep,"mid",a,(int)k); g.event("{\"e\":\"Pair\",\"i\":0,\"a\":"+ea+",\"w\":"+ew+"}"); g.count(jtext(whole)+std::to_string(k),true); } continue; }
          for(int w=0;w<2;++w){ if(w==0&&!fits_char(whole)) continue; bool a=false; int ep= (k+tr)%2? 3:5;
            // place `whole`, parse only [0,k)
            std::string ev = w==0 ? parse_event<ApiA>(S.mid,whole,ep,"mid",a,(int)k) : parse_event<ApiW>(S.mid,whole,ep,"mid",a,(int)k);
            g.event(ev); g.count(jtext(whole)+std::to_string(k),true); }
        } } }
  }
  return 0;
}
