// shim.cpp — LD_PRELOAD tracer: interposes public uriparser functions while the REPOSITORY'S OWN test suite runs, so that the suite's
// executions are validated against the specification (every assertion of the trace specifications, not only the suite's own).
// Each interposed call is forwarded to the real library (dlsym RTLD_NEXT) and recorded at its return in the event vocabulary of
// Trace_Algebra / Trace_Suite.  Output: ND-JSON appended to $VH_SHIM_OUT.  Not part of the `vh` binary; built as libvhshim.so.
#include "../vh.h"
#include <dlfcn.h>
Ctx g;   // vh.h declares it; unused here
static FILE* out(){ static FILE*f=nullptr; if(!f){ const char*p=getenv("VH_SHIM_OUT"); f=fopen(p?p:"/dev/null","a"); } return f; }
static void emit(const std::string&j){ FILE*f=out(); if(f){ fputs(j.c_str(),f); fputc('\n',f); fflush(f); } }
template<class F> static F real(const char*name){ return (F)dlsym(RTLD_NEXT,name); }
static thread_local int depth=0; struct Depth{ Depth(){++depth;} ~Depth(){--depth;} };

template<class A> static std::string snap(const typename A::Uri*u){ if(!u) return "null"; return Proj<A>::uri(*u); }
template<class A> static std::string text_of(const typename A::Uri&u){ Text t; return real_tostring<A>(u,t)? jopt_some(t):"[]"; }

#define SHIM_BOTH(S, API) \
extern "C" int uriAddBaseUriEx##S(UriUri##S*d,const UriUri##S*r,const UriUri##S*b,UriResolutionOptions o){ static auto f=real<int(*)(UriUri##S*,const UriUri##S*,const UriUri##S*,UriResolutionOptions)>("uriAddBaseUriEx" #S); \
  if(depth||!d||!r||!b) return f(d,r,b,o); Depth dd; std::string pr=snap<API>(r), pb=snap<API>(b); int rc=f(d,r,b,o); J j; j.str("e","AddBase").num("w",API::W).num("ep",1).raw("r",pr).raw("b",pb).num("opt",(int)o).num("rc",rc).boo("ro",pr==snap<API>(r)&&pb==snap<API>(b)); \
  if(rc==URI_SUCCESS) j.raw("t",snap<API>(d)).raw("text",text_of<API>(*d)); if(rc!=URI_ERROR_MALLOC) emit(j.done()); return rc; } \
extern "C" int uriAddBaseUri##S(UriUri##S*d,const UriUri##S*r,const UriUri##S*b){ return uriAddBaseUriEx##S(d,r,b,URI_RESOLVE_STRICTLY); } \
extern "C" int uriRemoveBaseUri##S(UriUri##S*d,const UriUri##S*s,const UriUri##S*b,UriBool m){ static auto f=real<int(*)(UriUri##S*,const UriUri##S*,const UriUri##S*,UriBool)>("uriRemoveBaseUri" #S); \
  if(depth||!d||!s||!b) return f(d,s,b,m); Depth dd; std::string ps=snap<API>(s), pb=snap<API>(b); int rc=f(d,s,b,m); J j; j.str("e","RemoveBase").num("w",API::W).num("ep",0).raw("s",ps).raw("b",pb).num("mode",m?1:0).num("rc",rc).boo("ro",ps==snap<API>(s)&&pb==snap<API>(b)).num("leak",0).num("backrc",1); \
  if(rc==URI_SUCCESS) j.raw("ref",snap<API>(d)).raw("text",text_of<API>(*d)); if(rc!=URI_ERROR_MALLOC) emit(j.done()); return rc; } \
extern "C" int uriNormalizeSyntaxEx##S(UriUri##S*u,unsigned m){ static auto f=real<int(*)(UriUri##S*,unsigned)>("uriNormalizeSyntaxEx" #S); \
  if(depth||!u) return f(u,m); Depth dd; std::string pre=snap<API>(u); int rc=f(u,m); J j; j.str("e","Normalize").num("w",API::W).num("ep",1).raw("val",pre).num("mask",m).num("rc",rc); if(rc==URI_SUCCESS) j.raw("out",snap<API>(u)); if(rc!=URI_ERROR_MALLOC) emit(j.done()); return rc; } \
extern "C" int uriNormalizeSyntax##S(UriUri##S*u){ return uriNormalizeSyntaxEx##S(u,(unsigned)-1); } \
extern "C" unsigned uriNormalizeSyntaxMaskRequired##S(const UriUri##S*u){ static auto f=real<unsigned(*)(const UriUri##S*)>("uriNormalizeSyntaxMaskRequired" #S); \
  if(depth||!u) return f(u); Depth dd; std::string pre=snap<API>(u); unsigned m=f(u); emit(J().str("e","MaskReq").num("w",API::W).raw("val",pre).num("rc",0).num("mask",m).boo("ro",pre==snap<API>(u)).done()); return m; } \
extern "C" UriBool uriEqualsUri##S(const UriUri##S*a,const UriUri##S*b){ static auto f=real<UriBool(*)(const UriUri##S*,const UriUri##S*)>("uriEqualsUri" #S); \
  if(depth||!a||!b) return f(a,b); Depth dd; std::string pa=snap<API>(a), pb=snap<API>(b); UriBool r=f(a,b), rv=f(b,a); \
  emit(J().str("e","Equals").num("w",API::W).raw("a",pa).raw("b",pb).num("res",r).num("rev",rv).boo("ro",pa==snap<API>(a)&&pb==snap<API>(b)).boo("lib",false).raw("ta","[]").raw("tb","[]").done()); return r; } \
extern "C" int uriParseUriEx##S(UriParserState##S*st,const API::Ch*first,const API::Ch*afterLast){ static auto f=real<int(*)(UriParserState##S*,const API::Ch*,const API::Ch*)>("uriParseUriEx" #S); \
  if(depth||!st||!first||!afterLast||!st->uri) return f(st,first,afterLast); Depth dd; Text in=to_text<API::Ch>(first,afterLast); int rc=f(st,first,afterLast); J j; j.str("e","ParseLite").num("w",API::W).raw("in",jtext(in)).num("rc",rc); \
  if(rc==URI_SUCCESS) j.raw("val",snap<API>(st->uri)); else j.num("epos", st->errorPos? (long long)(st->errorPos-first):-1); if(rc!=URI_ERROR_MALLOC) emit(j.done()); return rc; } \
extern "C" int uriParseUri##S(UriParserState##S*st,const API::Ch*text){ static auto f=real<int(*)(UriParserState##S*,const API::Ch*)>("uriParseUri" #S); if(!st||!text) return f(st,text); const API::Ch*e=text; while(*e) ++e; return uriParseUriEx##S(st,text,e); }

SHIM_BOTH(A, ApiA)
SHIM_BOTH(W, ApiW)
