// vh.h — conformance harness core for uriparser (C++17).
// The harness has no URI semantics of its own: it drives the real library, projects
// the real objects to the abstract state of the TLA+ specification (DESIGN.md App. A)
// and either logs events for trace validation by TLC, or compares with expectations
// that TLC emitted.
#pragma once
#include <uriparser/Uri.h>
#include <cstdio>
#include <cstdlib>
#include <cstring>
#include <cstdint>
#include <cwchar>
#include <string>
#include <vector>
#include <map>
#include <set>
#include <unordered_set>
#include <functional>
#include <algorithm>
#include <csetjmp>
#include <csignal>
#include <sys/mman.h>
#include <unistd.h>
#include <errno.h>

typedef std::vector<int> Text;   // code points

// ---------------------------------------------------------------- API traits
#define VH_FN(name, S) uri##name##S
#define VH_API(S, CH, WIDTH) \
struct Api##S { \
  typedef CH Ch; typedef UriUri##S Uri; typedef UriPathSegment##S Seg; typedef UriParserState##S State; \
  typedef UriQueryList##S QL; typedef UriTextRange##S Range; \
  static constexpr int W = WIDTH; \
  static int ParseUriEx(State*s,const Ch*f,const Ch*a){return uriParseUriEx##S(s,f,a);} \
  static int ParseUri(State*s,const Ch*t){return uriParseUri##S(s,t);} \
  static int ParseSingleUri(Uri*u,const Ch*t,const Ch**e){return uriParseSingleUri##S(u,t,e);} \
  static int ParseSingleUriEx(Uri*u,const Ch*f,const Ch*a,const Ch**e){return uriParseSingleUriEx##S(u,f,a,e);} \
  static int ParseSingleUriExMm(Uri*u,const Ch*f,const Ch*a,const Ch**e,UriMemoryManager*m){return uriParseSingleUriExMm##S(u,f,a,e,m);} \
  static void FreeUriMembers(Uri*u){uriFreeUriMembers##S(u);} \
  static int FreeUriMembersMm(Uri*u,UriMemoryManager*m){return uriFreeUriMembersMm##S(u,m);} \
  static Ch* EscapeEx(const Ch*f,const Ch*a,Ch*o,UriBool sp,UriBool nb){return uriEscapeEx##S(f,a,o,sp,nb);} \
  static Ch* Escape(const Ch*i,Ch*o,UriBool sp,UriBool nb){return uriEscape##S(i,o,sp,nb);} \
  static const Ch* UnescapeInPlaceEx(Ch*io,UriBool ps,UriBreakConversion bc){return uriUnescapeInPlaceEx##S(io,ps,bc);} \
  static const Ch* UnescapeInPlace(Ch*io){return uriUnescapeInPlace##S(io);} \
  static int AddBaseUri(Uri*d,const Uri*r,const Uri*b){return uriAddBaseUri##S(d,r,b);} \
  static int AddBaseUriEx(Uri*d,const Uri*r,const Uri*b,UriResolutionOptions o){return uriAddBaseUriEx##S(d,r,b,o);} \
  static int AddBaseUriExMm(Uri*d,const Uri*r,const Uri*b,UriResolutionOptions o,UriMemoryManager*m){return uriAddBaseUriExMm##S(d,r,b,o,m);} \
  static int RemoveBaseUri(Uri*d,const Uri*s,const Uri*b,UriBool dr){return uriRemoveBaseUri##S(d,s,b,dr);} \
  static int RemoveBaseUriMm(Uri*d,const Uri*s,const Uri*b,UriBool dr,UriMemoryManager*m){return uriRemoveBaseUriMm##S(d,s,b,dr,m);} \
  static UriBool EqualsUri(const Uri*a,const Uri*b){return uriEqualsUri##S(a,b);} \
  static int ToStringCharsRequired(const Uri*u,int*n){return uriToStringCharsRequired##S(u,n);} \
  static int ToString(Ch*d,const Uri*u,int m,int*w){return uriToString##S(d,u,m,w);} \
  static unsigned NormalizeSyntaxMaskRequired(const Uri*u){return uriNormalizeSyntaxMaskRequired##S(u);} \
  static int NormalizeSyntaxMaskRequiredEx(const Uri*u,unsigned*m){return uriNormalizeSyntaxMaskRequiredEx##S(u,m);} \
  static int NormalizeSyntaxEx(Uri*u,unsigned m){return uriNormalizeSyntaxEx##S(u,m);} \
  static int NormalizeSyntaxExMm(Uri*u,unsigned m,UriMemoryManager*mm){return uriNormalizeSyntaxExMm##S(u,m,mm);} \
  static int NormalizeSyntax(Uri*u){return uriNormalizeSyntax##S(u);} \
  static int UnixFilenameToUriString(const Ch*f,Ch*u){return uriUnixFilenameToUriString##S(f,u);} \
  static int WindowsFilenameToUriString(const Ch*f,Ch*u){return uriWindowsFilenameToUriString##S(f,u);} \
  static int UriStringToUnixFilename(const Ch*u,Ch*f){return uriUriStringToUnixFilename##S(u,f);} \
  static int UriStringToWindowsFilename(const Ch*u,Ch*f){return uriUriStringToWindowsFilename##S(u,f);} \
  static int ComposeQueryCharsRequired(const QL*q,int*n){return uriComposeQueryCharsRequired##S(q,n);} \
  static int ComposeQueryCharsRequiredEx(const QL*q,int*n,UriBool sp,UriBool nb){return uriComposeQueryCharsRequiredEx##S(q,n,sp,nb);} \
  static int ComposeQuery(Ch*d,const QL*q,int m,int*w){return uriComposeQuery##S(d,q,m,w);} \
  static int ComposeQueryEx(Ch*d,const QL*q,int m,int*w,UriBool sp,UriBool nb){return uriComposeQueryEx##S(d,q,m,w,sp,nb);} \
  static int ComposeQueryMalloc(Ch**d,const QL*q){return uriComposeQueryMalloc##S(d,q);} \
  static int ComposeQueryMallocEx(Ch**d,const QL*q,UriBool sp,UriBool nb){return uriComposeQueryMallocEx##S(d,q,sp,nb);} \
  static int ComposeQueryMallocExMm(Ch**d,const QL*q,UriBool sp,UriBool nb,UriMemoryManager*m){return uriComposeQueryMallocExMm##S(d,q,sp,nb,m);} \
  static int DissectQueryMalloc(QL**d,int*c,const Ch*f,const Ch*a){return uriDissectQueryMalloc##S(d,c,f,a);} \
  static int DissectQueryMallocEx(QL**d,int*c,const Ch*f,const Ch*a,UriBool ps,UriBreakConversion bc){return uriDissectQueryMallocEx##S(d,c,f,a,ps,bc);} \
  static int DissectQueryMallocExMm(QL**d,int*c,const Ch*f,const Ch*a,UriBool ps,UriBreakConversion bc,UriMemoryManager*m){return uriDissectQueryMallocExMm##S(d,c,f,a,ps,bc,m);} \
  static void FreeQueryList(QL*q){uriFreeQueryList##S(q);} \
  static int FreeQueryListMm(QL*q,UriMemoryManager*m){return uriFreeQueryListMm##S(q,m);} \
  static int MakeOwner(Uri*u){return uriMakeOwner##S(u);} \
  static int MakeOwnerMm(Uri*u,UriMemoryManager*m){return uriMakeOwnerMm##S(u,m);} \
};
VH_API(A, char, 1)
VH_API(W, wchar_t, 4)

// ---------------------------------------------------------------- text <-> characters
template<class Ch> inline int cp_of(Ch c);
template<> inline int cp_of<char>(char c){ return (unsigned char)c; }
template<> inline int cp_of<wchar_t>(wchar_t c){ return (int)c; }
template<class Ch> inline std::basic_string<Ch> to_str(const Text&t){ std::basic_string<Ch> s; s.reserve(t.size()); for(int c:t) s.push_back((Ch)c); return s; }
template<class Ch> inline Text to_text(const Ch*f,const Ch*a){ Text t; for(const Ch*p=f;p<a;++p) t.push_back(cp_of<Ch>(*p)); return t; }
inline Text T(const char*s){ Text t; for(;*s;++s) t.push_back((unsigned char)*s); return t; }
inline std::string show(const Text&t){ std::string s; for(int c:t){ if(c>=32&&c<127&&c!='\\'&&c!='"') s.push_back((char)c); else { char b[16]; snprintf(b,sizeof b,"<%x>",c); s+=b; } } return s; }

// ---------------------------------------------------------------- JSON building
struct J {
  std::string s; bool first=true;
  J& raw(const std::string&k,const std::string&v){ s += first?"{":","; first=false; s+='"'; s+=k; s+="\":"; s+=v; return *this; }
  J& num(const std::string&k,long long v){ return raw(k,std::to_string(v)); }
  J& str(const std::string&k,const std::string&v){ return raw(k,"\""+v+"\""); }
  J& boo(const std::string&k,bool v){ return raw(k,v?"true":"false"); }
  std::string done(){ return first? "{}" : s+"}"; }
};
inline std::string jtext(const Text&t){ std::string s="["; for(size_t i=0;i<t.size();++i){ if(i) s+=','; s+=std::to_string(t[i]); } return s+"]"; }
template<class Ch> inline std::string jtext(const Ch*f,const Ch*a){ return jtext(to_text(f,a)); }
inline std::string jopt_none(){ return "[]"; }
inline std::string jopt_some(const Text&t){ return "["+jtext(t)+"]"; }
inline std::string jlist(const std::vector<std::string>&v){ std::string s="["; for(size_t i=0;i<v.size();++i){ if(i) s+=','; s+=v[i]; } return s+"]"; }

// ---------------------------------------------------------------- mini JSON reader (for TLC-emitted cases)
struct JV {
  enum K{NUL,BOOL,NUM,STR,ARR,OBJ} k=NUL; long long n=0; bool b=false; std::string s; std::vector<JV> a; std::vector<std::pair<std::string,JV>> o;
  const JV& operator[](const std::string&key) const { for(auto&p:o) if(p.first==key) return p.second; static JV nul; return nul; }
  bool has(const std::string&key) const { for(auto&p:o) if(p.first==key) return true; return false; }
  const JV& operator[](size_t i) const { return a[i]; }
  size_t size() const { return k==ARR?a.size():o.size(); }
  Text text() const { Text t; for(auto&x:a) t.push_back((int)x.n); return t; }
  bool some() const { return k==ARR && !a.empty(); }
  std::string dump() const {
    switch(k){ case NUL: return "null"; case BOOL: return b?"true":"false"; case NUM: return std::to_string(n);
      case STR: return "\""+s+"\""; case ARR:{ std::string r="["; for(size_t i=0;i<a.size();++i){ if(i) r+=','; r+=a[i].dump(); } return r+"]"; }
      case OBJ:{ std::vector<std::pair<std::string,std::string>> v; for(auto&p:o) v.push_back({p.first,p.second.dump()}); std::sort(v.begin(),v.end());
        std::string r="{"; for(size_t i=0;i<v.size();++i){ if(i) r+=','; r+="\""+v[i].first+"\":"+v[i].second; } return r+"}"; } }
    return ""; }
};
struct JParser { const char*p; const char*e; bool ok=true;
  void ws(){ while(p<e&&(*p==' '||*p=='\n'||*p=='\t'||*p=='\r')) ++p; }
  JV val(){ ws(); JV v; if(p>=e){ok=false;return v;}
    if(*p=='{'){ v.k=JV::OBJ; ++p; ws(); if(p<e&&*p=='}'){++p;return v;} while(ok){ ws(); JV k=val(); ws(); if(p>=e||*p!=':'){ok=false;break;} ++p; JV x=val(); v.o.push_back({k.s,x}); ws(); if(p<e&&*p==','){++p;continue;} if(p<e&&*p=='}'){++p;break;} ok=false; } return v; }
    if(*p=='['){ v.k=JV::ARR; ++p; ws(); if(p<e&&*p==']'){++p;return v;} while(ok){ v.a.push_back(val()); ws(); if(p<e&&*p==','){++p;continue;} if(p<e&&*p==']'){++p;break;} ok=false; } return v; }
    if(*p=='"'){ v.k=JV::STR; ++p; while(p<e&&*p!='"'){ if(*p=='\\'&&p+1<e){ ++p; char c=*p; if(c=='n') v.s+='\n'; else if(c=='t') v.s+='\t'; else v.s+=c; ++p; } else v.s+=*p++; } ++p; return v; }
    if(!strncmp(p,"true",4)){ v.k=JV::BOOL; v.b=true; p+=4; return v; }
    if(!strncmp(p,"false",5)){ v.k=JV::BOOL; v.b=false; p+=5; return v; }
    if(!strncmp(p,"null",4)){ p+=4; return v; }
    { v.k=JV::NUM; char*q; v.n=strtoll(p,&q,10); if(q==p) ok=false; p=q; return v; } }
};
inline JV jparse(const std::string&s,bool*ok=nullptr){ JParser P{s.data(),s.data()+s.size()}; JV v=P.val(); if(ok)*ok=P.ok; return v; }
// TLC's CSVWrite("%1$s", <<ToJson(x)>>) writes a JSON *string* holding JSON; accept both forms.
inline JV jparse_line(const std::string&line,bool*ok=nullptr){ JV v=jparse(line,ok); if(v.k==JV::STR) return jparse(v.s,ok); return v; }

// ---------------------------------------------------------------- RNG (seeded; VERIF_SEED)
struct Rng { uint64_t x; explicit Rng(uint64_t s):x(s*0x9E3779B97F4A7C15ull+0x1234567){}
  uint64_t next(){ uint64_t z=(x+=0x9E3779B97F4A7C15ull); z=(z^(z>>30))*0xBF58476D1CE4E5B9ull; z=(z^(z>>27))*0x94D049BB133111EBull; return z^(z>>31); }
  int below(int n){ return (int)(next()%(uint64_t)n); }
  bool coin(){ return next()&1; }
  template<class V> const typename V::value_type& pick(const V&v){ return v[below((int)v.size())]; } };
inline uint64_t fnv(const std::string&s){ uint64_t h=1469598103934665603ull; for(unsigned char c:s){ h^=c; h*=1099511628211ull; } return h; }

// ---------------------------------------------------------------- run context: outputs, counters, current-case marker
struct Ctx {
  std::string outdir; int nshards=16; uint64_t seed=1; bool thorough=false;
  std::vector<FILE*> shards; size_t rr=0; std::string stream;
  FILE* viol=nullptr; char* cur=nullptr; size_t curcap=1<<16;
  bool pair=false; unsigned long aw_calls=0; std::vector<std::string>* capture=nullptr;   // C19: pair mode, see AW() below
  long long evaluations=0, events=0, violations=0; std::unordered_set<uint64_t> distinct; std::vector<std::string> samples;
  void open(const std::string&dir,const std::string&name,int n);
  void set_case(const std::string&s){ if(cur){ size_t k=std::min(s.size(),curcap-1); memcpy(cur,s.data(),k); cur[k]=0; } }
  void event(const std::string&json){ if(capture){ capture->push_back(json); return; } FILE*f=shards[rr++%shards.size()]; fputs(json.c_str(),f); fputc('\n',f); ++events; }
  void event_to(size_t shard,const std::string&json){ if(capture){ capture->push_back(json); return; } FILE*f=shards[shard%shards.size()]; fputs(json.c_str(),f); fputc('\n',f); ++events; }
  void violation(const std::string&json){ ++violations; if(violations<=200){ fputs(json.c_str(),viol); fputc('\n',viol); fflush(viol);} }
  void count(const std::string&key,bool nontrivial){ ++evaluations; if(nontrivial) distinct.insert(fnv(key)); }
  void sample(const std::string&json){ if(samples.size()<6) samples.push_back(json); }
  void close(const std::string&extra="");
};
extern Ctx g;
// C19 — every driver dispatches a case to the char or the wchar_t instantiation through AW().  Normally one of the two runs (pickA).
// In pair mode (--pair 1) BOTH run on the same case, the events each records are captured, and the i-th event of the narrow run is
// emitted next to the i-th event of the wide run as one Pair event; Trace_Pair requires them to be the same record (field "w" apart).
// `narrow` = the case is representable in both character types (otherwise only the wide variant runs and nothing is paired).
template<class FA,class FW> inline void AW(bool narrow,bool pickA,FA fa,FW fw,size_t shard=(size_t)-1){
  // which of the two runs follows the Thue-Morse sequence of a call counter, NOT the caller's loop index: an index parity is aligned with
  // whatever two-valued parameter the innermost loop enumerates (option, owned/borrowed, mode), which would pin that parameter to one type
  if(!g.pair||!narrow){ (void)pickA; bool a=__builtin_popcountl(g.aw_calls++)&1; if(narrow&&a) fa(); else fw(); return; }
  std::vector<std::string> ea,ew; g.capture=&ea; fa(); g.capture=&ew; fw(); g.capture=nullptr; size_t n=std::max(ea.size(),ew.size());
  for(size_t i=0;i<n;++i){ std::string j="{\"e\":\"Pair\",\"i\":"+std::to_string(i); if(i<ea.size()) j+=",\"a\":"+ea[i]; if(i<ew.size()) j+=",\"w\":"+ew[i]; j+="}"; if(shard==(size_t)-1) g.event(j); else g.event_to(shard,j); } }

// ---------------------------------------------------------------- guarded memory
// An arena whose last usable byte is directly followed by a PROT_NONE page.
struct Guarded {
  char* base=nullptr; size_t bytes=0; size_t page=4096;
  explicit Guarded(size_t cap=1<<20){ bytes=((cap+page-1)/page)*page; base=(char*)mmap(nullptr,bytes+page,PROT_READ|PROT_WRITE,MAP_PRIVATE|MAP_ANONYMOUS,-1,0); if(base==MAP_FAILED){perror("mmap");abort();} mprotect(base+bytes,page,PROT_NONE); }
  ~Guarded(){ if(base) munmap(base,bytes+page); }
  // returns pointer p such that p+n is the guard page
  void* tail(size_t n){ return base+bytes-n; }
  void readonly(bool ro){ mprotect(base,bytes,ro?PROT_READ:(PROT_READ|PROT_WRITE)); }
  template<class Ch> Ch* put(const Text&t,bool nul){ size_t n=t.size()+(nul?1:0); Ch*p=(Ch*)tail(n*sizeof(Ch)); for(size_t i=0;i<t.size();++i) p[i]=(Ch)t[i]; if(nul) p[t.size()]=0; return p; }
};

// ---------------------------------------------------------------- fault capture (guard-page hits, time-outs)
extern sigjmp_buf g_jmp; extern volatile sig_atomic_t g_armed; extern volatile int g_fault_sig; extern void* g_fault_addr;
void install_fault_handlers();
// runs f(); returns 0 if it returned normally, else the signal number that interrupted it
template<class F> inline int guarded_call(F f){ g_fault_sig=0; if(sigsetjmp(g_jmp,1)==0){ g_armed=1; f(); g_armed=0; return 0; } g_armed=0; return g_fault_sig?g_fault_sig:-1; }

// ---------------------------------------------------------------- recording / fault-injecting memory manager
struct MemEv { char kind; long id; long long size; int ok; long oldid; };
struct RecMM {
  UriMemoryManager mm; std::vector<MemEv> log; std::map<void*,std::pair<long,size_t>> live; long nextid=1; long reqs=0;
  long failAt=0; bool failFrom=false; long refused=0;     // fail the failAt-th request (1-based); failFrom: and all later ones
  bool bad=false;                          // unknown/double free seen
  RecMM(); void reset(){ log.clear(); reqs=0; }
  bool should_fail(){ ++reqs; bool f= failAt && (failFrom ? reqs>=failAt : reqs==failAt); if(f) ++refused; return f; }
  std::string jlog() const; size_t outstanding() const { return live.size(); }
  void release_all();
};
// libc allocation seen while a library call is in flight (via -Wl,--wrap)
extern volatile int g_in_lib; extern std::vector<MemEv> g_libc_log; extern std::map<void*,std::pair<long,size_t>> g_libc_live; extern long g_libc_nextid; extern bool g_libc_bad;
std::string jmemlog(const std::vector<MemEv>&v);
struct LibScope { LibScope(){ g_in_lib=1; } ~LibScope(){ g_in_lib=0; } };

// ---------------------------------------------------------------- projection of a real URI object
template<class A> struct Proj {
  typedef typename A::Ch Ch; typedef typename A::Uri Uri; typedef typename A::Seg Seg; typedef typename A::Range Range;
  static bool range_ok(const Range&r){ return (r.first==nullptr)==(r.afterLast==nullptr) && r.first<=r.afterLast; }
  static std::string opt(const Range&r){ if(r.first==nullptr||!range_ok(r)) return "[]"; return "["+jtext(r.first,r.afterLast)+"]"; }
  static std::string txt(const Range&r){ if(r.first==nullptr||!range_ok(r)) return "[]"; return jtext(r.first,r.afterLast); }
  static const char* hostkind(const Uri&u){ if(u.hostData.ip4) return "ip4"; if(u.hostData.ip6) return "ip6"; if(u.hostData.ipFuture.first) return "fut"; if(u.hostText.first) return "reg"; return "none"; }
  // abstract value (DESIGN App. A `uri`)
  static std::string uri(const Uri&u){
    bool ranges = range_ok(u.scheme)&&range_ok(u.userInfo)&&range_ok(u.hostText)&&range_ok(u.portText)&&range_ok(u.query)&&range_ok(u.fragment)&&range_ok(u.hostData.ipFuture);
    std::vector<std::string> segs; const Seg*last=nullptr; int guard=0;
    for(const Seg*s=u.pathHead;s&&guard<100000;s=s->next,++guard){ if(!range_ok(s->text)) ranges=false; segs.push_back(txt(s->text)); last=s; }
    bool tail = (u.pathHead==nullptr) ? (u.pathTail==nullptr) : (u.pathTail==last);
    std::string hk=hostkind(u); std::string hb="[]";
    if(u.hostData.ip4){ Text b; for(int i=0;i<4;++i) b.push_back(u.hostData.ip4->data[i]); hb=jtext(b); }
    else if(u.hostData.ip6){ Text b; for(int i=0;i<16;++i) b.push_back(u.hostData.ip6->data[i]); hb=jtext(b); }
    int kinds=(u.hostData.ip4?1:0)+(u.hostData.ip6?1:0)+(u.hostData.ipFuture.first?1:0);
    bool hostdata = kinds<=1 && (kinds==0 || u.hostText.first!=nullptr)
       && (!u.hostData.ipFuture.first || (range_ok(u.hostData.ipFuture)&&range_ok(u.hostText)&& to_text(u.hostData.ipFuture.first,u.hostData.ipFuture.afterLast)==to_text(u.hostText.first,u.hostText.afterLast)));
    bool hostabs = !(u.hostText.first!=nullptr && u.absolutePath);
    J j; j.raw("sc",opt(u.scheme)).raw("ui",opt(u.userInfo)).str("hk",hk).raw("ht",txt(u.hostText)).raw("hb",hb).raw("po",opt(u.portText))
        .num("abs",u.absolutePath?1:0).raw("segs",jlist(segs)).raw("q",opt(u.query)).raw("f",opt(u.fragment)).num("own",u.owner?1:0)
        .raw("wf", J().boo("tail",tail).boo("ranges",ranges).boo("hostabs",hostabs).boo("hostdata",hostdata).done());
    return j.done(); }
  // span of a range relative to an input buffer: [kind,off,len]; kind 0 absent, 1 inside input, 2 outside & empty (placeholder), 3 outside & non-empty
  static std::string span(const Range&r,const Ch*first,const Ch*afterLast){
    if(r.first==nullptr) return "[0,0,0]"; long len=(long)(r.afterLast-r.first);
    if(r.first>=first && r.afterLast<=afterLast && r.first<=r.afterLast) return "[1,"+std::to_string((long)(r.first-first))+","+std::to_string(len)+"]";
    return std::string(len==0?"[2,0,0]":"[3,0,")+(len==0?"":std::to_string(len)+"]"); }
  static std::string spans(const Uri&u,const Ch*f,const Ch*a){
    std::vector<std::string> segs; int guard=0; for(const Seg*s=u.pathHead;s&&guard<100000;s=s->next,++guard) segs.push_back(span(s->text,f,a));
    return J().raw("sc",span(u.scheme,f,a)).raw("ui",span(u.userInfo,f,a)).raw("ht",span(u.hostText,f,a)).raw("po",span(u.portText,f,a))
        .raw("segs",jlist(segs)).raw("q",span(u.query,f,a)).raw("f",span(u.fragment,f,a)).done(); }
};

// real recomposition, exact size; returns false if the library reports an error
template<class A> bool real_tostring(const typename A::Uri&u,Text&out,int*rc_req=nullptr,int*rc_str=nullptr){
  int n=-1; int r1=A::ToStringCharsRequired(&u,&n); if(rc_req)*rc_req=r1; if(r1!=URI_SUCCESS||n<0) return false;
  std::vector<typename A::Ch> buf((size_t)n+1+8,(typename A::Ch)0x6E); int w=-1; int r2=A::ToString(buf.data(),&u,n+1,&w); if(rc_str)*rc_str=r2; if(r2!=URI_SUCCESS) return false;
  out=to_text<typename A::Ch>(buf.data(),buf.data()+ (w>0? w-1:0)); return true; }

// ---------------------------------------------------------------- driver registry
typedef int (*DriverFn)(int argc,char**argv);
struct Driver { const char*name; DriverFn fn; };
void register_driver(const char*name,DriverFn fn);
#define VH_DRIVER(NAME) static int drv_##NAME(int,char**); static struct Reg_##NAME{ Reg_##NAME(){ register_driver(#NAME,drv_##NAME);} } reg_##NAME; static int drv_##NAME(int argc,char**argv)
const char* arg_value(int argc,char**argv,const char*key,const char*def);
std::vector<std::string> read_lines(const std::string&path);
