// core.cpp — run context, fault handlers, recording memory manager, libc interposition, main()
#include "vh.h"
#include <clocale>
#include <fcntl.h>
#include <sys/stat.h>
#include <fstream>

Ctx g;
sigjmp_buf g_jmp; volatile sig_atomic_t g_armed=0; volatile int g_fault_sig=0; void* g_fault_addr=nullptr;
volatile int g_in_lib=0; std::vector<MemEv> g_libc_log; std::map<void*,std::pair<long,size_t>> g_libc_live; long g_libc_nextid=1; bool g_libc_bad=false;

static std::vector<Driver>& drivers(){ static std::vector<Driver> d; return d; }
void register_driver(const char*name,DriverFn fn){ drivers().push_back({name,fn}); }
const char* arg_value(int argc,char**argv,const char*key,const char*def){ for(int i=0;i+1<argc;++i) if(!strcmp(argv[i],key)) return argv[i+1]; return def; }
std::vector<std::string> read_lines(const std::string&path){ std::vector<std::string> v; std::ifstream f(path); std::string l; while(std::getline(f,l)) if(!l.empty()) v.push_back(l); return v; }

void Ctx::open(const std::string&dir,const std::string&name,int n){
  outdir=dir; stream=name; nshards=n; mkdir(dir.c_str(),0777);
  for(int i=0;i<n;++i){ std::string p=dir+"/"+name+"."+std::to_string(i)+".ndjson"; FILE*f=fopen(p.c_str(),"w"); if(!f){perror(p.c_str());exit(2);} setvbuf(f,nullptr,_IOFBF,1<<16); shards.push_back(f); }
  viol=fopen((dir+"/"+name+".violations.ndjson").c_str(),"w");
  std::string cp=dir+"/"+name+".current"; int fd=::open(cp.c_str(),O_RDWR|O_CREAT|O_TRUNC,0666); if(fd>=0){ if(ftruncate(fd,(off_t)curcap)==0){ cur=(char*)mmap(nullptr,curcap,PROT_READ|PROT_WRITE,MAP_SHARED,fd,0); if(cur==MAP_FAILED) cur=nullptr; } ::close(fd); }
}
void Ctx::close(const std::string&extra){
  for(FILE*f:shards) fclose(f); shards.clear(); if(viol) fclose(viol);
  if(cur) cur[0]=0;   // clean termination: no case in flight
  FILE*f=fopen((outdir+"/"+stream+".stats.json").c_str(),"w");
  fprintf(f,"{\"evaluations\":%lld,\"events\":%lld,\"distinct_nontrivial\":%zu,\"violations\":%lld,\"samples\":%s%s%s}\n",evaluations,events,distinct.size(),violations,jlist(samples).c_str(),extra.empty()?"":",",extra.c_str());
  fclose(f);
}

// ---------------------------------------------------------------- fault handlers
static void on_fault(int sig,siginfo_t*si,void*){
  if(g_armed){ g_fault_sig=sig; g_fault_addr=si?si->si_addr:nullptr; g_armed=0; siglongjmp(g_jmp,1); }
  // not inside a guarded library call: restore default and re-raise
  signal(sig,SIG_DFL); raise(sig);
}
void install_fault_handlers(){
  static char altstack[1<<16]; stack_t ss; ss.ss_sp=altstack; ss.ss_size=sizeof altstack; ss.ss_flags=0; sigaltstack(&ss,nullptr);
  struct sigaction sa; memset(&sa,0,sizeof sa); sa.sa_sigaction=on_fault; sa.sa_flags=SA_SIGINFO|SA_ONSTACK|SA_NODEFER; sigemptyset(&sa.sa_mask);
  sigaction(SIGSEGV,&sa,nullptr); sigaction(SIGBUS,&sa,nullptr); sigaction(SIGALRM,&sa,nullptr);
}

// ---------------------------------------------------------------- recording manager
std::string jmemlog(const std::vector<MemEv>&v){ std::string s="["; for(size_t i=0;i<v.size();++i){ if(i) s+=','; char b[96]; long long sz=v[i].size; if(sz>2000000000LL) sz=2000000000LL; snprintf(b,sizeof b,"[\"%c\",%ld,%lld,%d,%ld]",v[i].kind,v[i].id,sz,v[i].ok,v[i].oldid); s+=b; } return s+"]"; }
std::string RecMM::jlog() const { return jmemlog(log); }
static RecMM* self(UriMemoryManager*m){ return (RecMM*)m->userData; }
// the recording manager's own use of libc is not the library's: suspend attribution while inside it
struct NoLib { int save; NoLib():save(g_in_lib){ g_in_lib=0; } ~NoLib(){ g_in_lib=save; } };
static void* rec_alloc(RecMM*r,char kind,size_t size,bool zero){ NoLib nl;
  if(r->should_fail() || size>((size_t)1<<28)){ r->log.push_back({kind,0,(long long)size,0,0}); errno=ENOMEM; return nullptr; }   // (no real allocator is asked for more than 256 MiB here except to see it refuse)
  void*p=zero?calloc(1,size?size:1):malloc(size?size:1); long id=r->nextid++; r->live[p]={id,size}; r->log.push_back({kind,id,(long long)size,1,0}); return p; }
static void* rec_malloc(UriMemoryManager*m,size_t n){ return rec_alloc(self(m),'m',n,false); }
static void* rec_calloc(UriMemoryManager*m,size_t a,size_t b){ size_t t; if(__builtin_mul_overflow(a,b,&t)){ self(m)->log.push_back({'c',0,-1,0,0}); errno=ENOMEM; return nullptr; } return rec_alloc(self(m),'c',t,true); }
static void rec_free(UriMemoryManager*m,void*p){ NoLib nl; RecMM*r=self(m); if(!p){ r->log.push_back({'f',0,0,1,0}); return; }
  auto it=r->live.find(p); if(it==r->live.end()){ r->bad=true; r->log.push_back({'f',-1,0,0,0}); return; }
  r->log.push_back({'f',it->second.first,(long long)it->second.second,1,0}); memset(p,0xDD,it->second.second); r->live.erase(it); free(p); }
static void* rec_realloc(UriMemoryManager*m,void*p,size_t n){ NoLib nl; RecMM*r=self(m);
  if(!p) return rec_alloc(r,'r',n,false);
  auto it=r->live.find(p); if(it==r->live.end()){ r->bad=true; r->log.push_back({'r',-1,(long long)n,0,0}); return nullptr; }
  if(n==0){ r->log.push_back({'r',0,0,1,it->second.first}); r->live.erase(it); free(p); return nullptr; }
  if(r->should_fail()){ r->log.push_back({'r',0,(long long)n,0,it->second.first}); errno=ENOMEM; return nullptr; }
  long oldid=it->second.first; size_t oldsz=it->second.second; void*q=malloc(n); memcpy(q,p,std::min(n,oldsz)); r->live.erase(it); free(p); long id=r->nextid++; r->live[q]={id,n}; r->log.push_back({'r',id,(long long)n,1,oldid}); return q; }
static void* rec_reallocarray(UriMemoryManager*m,void*p,size_t a,size_t b){ size_t t; if(__builtin_mul_overflow(a,b,&t)){ self(m)->log.push_back({'a',0,-1,0,0}); errno=ENOMEM; return nullptr; } return rec_realloc(m,p,t); }
RecMM::RecMM(){ mm.malloc=rec_malloc; mm.calloc=rec_calloc; mm.realloc=rec_realloc; mm.reallocarray=rec_reallocarray; mm.free=rec_free; mm.userData=this; }
void RecMM::release_all(){ for(auto&p:live) free(p.first); live.clear(); }

// ---------------------------------------------------------------- libc interposition (-Wl,--wrap=malloc,...)
extern "C" {
void* __real_malloc(size_t); void* __real_calloc(size_t,size_t); void* __real_realloc(void*,size_t); void* __real_reallocarray(void*,size_t,size_t); void __real_free(void*);
static void libc_note_alloc(char kind,void*p,size_t n){ if(!g_in_lib) return; int save=g_in_lib; g_in_lib=0; if(p){ long id=g_libc_nextid++; g_libc_live[p]={id,n}; g_libc_log.push_back({kind,id,(long long)n,1,0}); } else g_libc_log.push_back({kind,0,(long long)n,0,0}); g_in_lib=save; }
static void libc_note_free(void*p){ if(!g_in_lib) return; int save=g_in_lib; g_in_lib=0; if(!p) g_libc_log.push_back({'f',0,0,1,0}); else { auto it=g_libc_live.find(p); if(it==g_libc_live.end()){ g_libc_log.push_back({'f',-1,0,0,0}); g_libc_bad=true; } else { g_libc_log.push_back({'f',it->second.first,(long long)it->second.second,1,0}); g_libc_live.erase(it);} } g_in_lib=save; }
void* __wrap_malloc(size_t n){ void*p=__real_malloc(n); libc_note_alloc('m',p,n); return p; }
void* __wrap_calloc(size_t a,size_t b){ void*p=__real_calloc(a,b); libc_note_alloc('c',p,a*b); return p; }
void* __wrap_realloc(void*o,size_t n){ if(g_in_lib&&o) libc_note_free(o); void*p=__real_realloc(o,n); if(n||!o) libc_note_alloc('r',p,n); return p; }
void* __wrap_reallocarray(void*o,size_t a,size_t b){ if(g_in_lib&&o) libc_note_free(o); void*p=__real_reallocarray(o,a,b); libc_note_alloc('a',p,a*b); return p; }
void __wrap_free(void*p){ libc_note_free(p); __real_free(p); }
}

int main(int argc,char**argv){
  if(argc<2){ fprintf(stderr,"usage: vh <driver> [--out dir] [--seed n] [--tier quick|thorough] ...\ndrivers:"); for(auto&d:drivers()) fprintf(stderr," %s",d.name); fprintf(stderr,"\n"); return 2; }
  const char*seed=arg_value(argc,argv,"--seed",getenv("VERIF_SEED")?getenv("VERIF_SEED"):"1"); g.seed=strtoull(seed,nullptr,10);
  g.thorough=!strcmp(arg_value(argc,argv,"--tier","quick"),"thorough");
  g.pair=atoi(arg_value(argc,argv,"--pair","0"))!=0;
  install_fault_handlers();
  // the process runs under a UTF-8 locale: what the library accepts, classifies or converts must not depend on LC_CTYPE (a <ctype.h> /
  // <wctype.h> classification of a code point above 127 would differ from the "C" locale's)
  { const char*loc=getenv("VH_LOCALE"); if(!setlocale(LC_ALL, loc? loc : "C.utf8")) setlocale(LC_ALL,"C.UTF-8"); }
  for(auto&d:drivers()) if(!strcmp(d.name,argv[1])){
    const char*out=arg_value(argc,argv,"--out",nullptr); if(out) g.open(out,arg_value(argc,argv,"--stream",argv[1]),atoi(arg_value(argc,argv,"--shards","16")));
    int rc=d.fn(argc,argv); if(out) g.close(); return rc; }
  fprintf(stderr,"unknown driver %s\n",argv[1]); return 2;
}
