// factory.h — real URI objects for the drivers (parsed, then optionally transformed by the library itself)
#pragma once
#include "vh.h"
#include <memory>
template<class A> struct Holder {
  typedef typename A::Ch Ch; std::basic_string<Ch> text; typename A::Uri uri; bool ok=false; std::vector<std::shared_ptr<Holder<A>>> keep; Text src;
  Holder(){ memset(&uri,0,sizeof uri); }
  ~Holder(){ if(ok) A::FreeUriMembers(&uri); }
  Holder(const Holder&)=delete; Holder& operator=(const Holder&)=delete;
};
template<class A> std::shared_ptr<Holder<A>> parse_holder(const Text&t){
  auto h=std::make_shared<Holder<A>>(); h->src=t; h->text=to_str<typename A::Ch>(t); const typename A::Ch*e=nullptr;
  int rc=A::ParseSingleUriEx(&h->uri,h->text.data(),h->text.data()+h->text.size(),&e); h->ok=(rc==URI_SUCCESS); return h; }
inline bool fits_char_text(const Text&s){ for(int c:s) if(c<0||c>255) return false; return true; }
