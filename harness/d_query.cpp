// d_query.cpp — C17: query composition / dissection events for TLC (Trace_Query).
#include "vh.h"
#include <array>
struct QItem { Text k; bool hasv; Text v; };
typedef std::vector<QItem> QList;
static std::string jq(const QList&l){ std::vector<std::string> v; for(auto&it:l) v.push_back("["+jtext(it.k)+","+(it.hasv? jopt_some(it.v):"[]")+"]"); return jlist(v); }
static std::string showq(const QList&l){ std::string s; for(auto&it:l){ if(!s.empty()) s+=" & "; s+="("+show(it.k)+(it.hasv? ","+show(it.v):",NULL")+")"; } return s; }

template<class A> struct RealList { typedef typename A::Ch Ch; typedef typename A::QL QL; std::vector<std::basic_string<Ch>> store; std::vector<QL> nodes;
  explicit RealList(const QList&l){ store.reserve(l.size()*2); nodes.resize(l.size()); for(auto&it:l){ store.push_back(to_str<Ch>(it.k)); store.push_back(to_str<Ch>(it.v)); }
    for(size_t i=0;i<l.size();++i){ nodes[i].key=store[2*i].c_str(); nodes[i].value= l[i].hasv? store[2*i+1].c_str():nullptr; nodes[i].next= i+1<l.size()? &nodes[i+1]:nullptr; } }
  const QL* head() const { return nodes.empty()? nullptr : &nodes[0]; }
  std::string snap() const { std::string s((const char*)nodes.data(),nodes.size()*sizeof(QL)); for(auto&x:store) s.append((const char*)x.data(),x.size()*sizeof(Ch)); return s; } };

template<class A> static QList read_list(const typename A::QL*q){ QList l; int guard=0; for(;q&&guard<100000;q=q->next,++guard){ QItem it; const typename A::Ch*p=q->key; if(p) while(*p) it.k.push_back(cp_of<typename A::Ch>(*p++)); it.hasv=(q->value!=nullptr); if(it.hasv){ p=q->value; while(*p) it.v.push_back(cp_of<typename A::Ch>(*p++)); } l.push_back(it); } return l; }

static bool g_only_malloc=false;   // long-list family: measuring call, one exact-capacity write and the allocating variant only
template<class A> static void compose_events(Guarded&ar,const QList&l,int sp,int nb,int ep,bool allcaps){
  typedef typename A::Ch Ch; RealList<A> rl(l); std::string s0=rl.snap(); std::string jl=jq(l);
  g.set_case(J().str("driver","query/compose").raw("list",jl).num("sp",sp).num("nb",nb).num("w",A::W).done());
  int req=-7; int rcreq= (ep==0&&sp==1&&nb==1)? A::ComposeQueryCharsRequired(rl.head(),&req) : A::ComposeQueryCharsRequiredEx(rl.head(),&req,sp,nb);
  g.event(J().str("e","ComposeReq").num("w",A::W).raw("list",jl).boo("sp",sp).boo("nb",nb).num("rc",rcreq).num("req",req).boo("ro",s0==rl.snap()).str("s",showq(l)).done());
  if(rcreq!=URI_SUCCESS||req<0||req>100000) return;
  // writing: every capacity (or a few), guard-page and canary layouts
  std::vector<int> caps; if(allcaps){ for(int c=-1;c<=req+2;++c) caps.push_back(c); } else { caps={0,1,req/2,req,req+1}; } if(g_only_malloc) caps={req+1};
  for(int cap:caps) for(int wantw=0;wantw<2;++wantw){ if(!allcaps&&wantw==0&&cap!=req+1) continue;
    size_t cells1= cap>0? (size_t)cap:0; Ch*d1=(Ch*)ar.tail(cells1*sizeof(Ch)); for(size_t i=0;i<cells1;++i) d1[i]=(Ch)0xEE; int w1=-9,rc1=-9;
    int fault=guarded_call([&]{ rc1= (ep==0&&sp==1&&nb==1)? A::ComposeQuery(d1,rl.head(),cap,wantw?&w1:nullptr) : A::ComposeQueryEx(d1,rl.head(),cap,wantw?&w1:nullptr,sp,nb); });
    std::vector<Ch> d2(cells1+8,(Ch)0xEE); int w2=-9; int rc2= fault? rc1 : A::ComposeQueryEx(d2.data(),rl.head(),cap,wantw?&w2:nullptr,sp,nb);
    Text cells; for(Ch c:d2) cells.push_back(cp_of<Ch>(c)==(int)(Ch)0xEE? 238 : cp_of<Ch>(c));
    bool same= fault || (rc1==rc2 && (rc1!=URI_SUCCESS || (w1==w2 && std::equal(d1,d1+ (w1>0&&w1<=(int)cells1? w1:0),d2.begin()))));
    g.event(J().str("e","Compose").num("w",A::W).raw("list",jl).boo("sp",sp).boo("nb",nb).num("cap",cap).boo("wantw",wantw).num("rc",rc2).num("written",wantw?w2:0).raw("cells",jtext(cells)).num("fault",fault).boo("same",same).boo("ro",s0==rl.snap()).str("s",showq(l)).done()); }
  // malloc variant + round trip through dissect
  RecMM mm; Ch*out=nullptr; int rcm= ep==2? A::ComposeQueryMallocExMm(&out,rl.head(),sp,nb,&mm.mm) : (ep==0&&sp==1&&nb==1? A::ComposeQueryMalloc(&out,rl.head()) : A::ComposeQueryMallocEx(&out,rl.head(),sp,nb));
  std::string jout="[]", back="[]"; int count=-1, rcd=-1;
  if(rcm==URI_SUCCESS&&out){ size_t n=0; while(out[n]) ++n; jout=jopt_some(to_text<Ch>(out,out+n));
    typename A::QL*ql=nullptr; rcd=A::DissectQueryMallocEx(&ql,&count,out,out+n,sp,URI_BR_DONT_TOUCH); if(rcd==URI_SUCCESS){ back=jq(read_list<A>(ql)); A::FreeQueryList(ql); }
    if(ep==2) mm.mm.free(&mm.mm,out); else free(out); }
  g.event(J().str("e","ComposeMalloc").num("w",A::W).raw("list",jl).boo("sp",sp).boo("nb",nb).num("rc",rcm).raw("out",jout).num("rcd",rcd).num("count",count).raw("back",back).raw("mem",mm.jlog()).num("leak",(long long)mm.outstanding()).str("s",showq(l)).done());
  mm.release_all(); }

template<class A> static void dissect_event(Guarded&ar,const Text&in,int ps,int conv,int ep){
  typedef typename A::Ch Ch; Ch*p=ar.put<Ch>(in,false); typename A::QL*ql=nullptr; int count=-7; RecMM mm; int rc=-9;
  static unsigned long ncalls=0; bool nocount= (ncalls++)%5==2;   // the item count is optional ("can be NULL"): the list must not depend on it
  int*pc= nocount? nullptr : &count;
  g.set_case(J().str("driver","query/dissect").raw("in",jtext(in)).num("ps",ps).num("conv",conv).num("w",A::W).done());
  int fault=guarded_call([&]{ rc= ep==2? A::DissectQueryMallocExMm(&ql,pc,p,p+in.size(),ps,(UriBreakConversion)conv,&mm.mm) : (ep==0&&ps==1&&conv==(int)URI_BR_DONT_TOUCH? A::DissectQueryMalloc(&ql,pc,p,p+in.size()) : A::DissectQueryMallocEx(&ql,pc,p,p+in.size(),ps,(UriBreakConversion)conv)); });
  std::string jl="[]"; if(!fault&&rc==URI_SUCCESS){ jl=jq(read_list<A>(ql)); if(ep==2) A::FreeQueryListMm(ql,&mm.mm); else A::FreeQueryList(ql); }
  g.event(J().str("e","Dissect").num("w",A::W).raw("in",jtext(in)).boo("ps",ps).num("conv",conv).num("rc",rc).num("count",count).boo("nocount",nocount).raw("list",jl).raw("mem",mm.jlog()).num("leak",(long long)mm.outstanding()).num("fault",fault).str("s",show(in)).done()); mm.release_all(); }

// the allocating calls with the k-th request of the supplied manager refused (once, or from then on): whatever is REPORTED as a success must
// be the fault-free result (C17); that a refused request ends in the out-of-memory code is C14's clause and is checked here as well
template<class A> static void query_fault_events(const Text&in,int ps,int conv){ typedef typename A::Ch Ch; std::basic_string<Ch> s=to_str<Ch>(in);
  long reqs=0; { RecMM mm; typename A::QL*ql=nullptr; int c=0; if(A::DissectQueryMallocExMm(&ql,&c,s.data(),s.data()+s.size(),ps,(UriBreakConversion)conv,&mm.mm)==URI_SUCCESS) A::FreeQueryListMm(ql,&mm.mm); reqs=mm.reqs; mm.release_all(); }
  for(long k=1;k<=reqs+1;++k) for(int from=0;from<2;++from){ RecMM mm; mm.failAt=k; mm.failFrom=from; typename A::QL*ql=nullptr; int count=-7;
    g.set_case(J().str("driver","query/dissect-fault").raw("in",jtext(in)).num("k",k).num("from",from).num("w",A::W).done());
    int rc=A::DissectQueryMallocExMm(&ql,&count,s.data(),s.data()+s.size(),ps,(UriBreakConversion)conv,&mm.mm); bool refused=mm.refused>0; mm.failAt=0;
    std::string jl="[]"; if(rc==URI_SUCCESS){ jl=jq(read_list<A>(ql)); A::FreeQueryListMm(ql,&mm.mm); }
    g.event(J().str("e","DissectFault").num("w",A::W).raw("in",jtext(in)).boo("ps",ps).num("conv",conv).num("k",k).boo("from",from).num("rc",rc).boo("refused",refused).num("count",count).raw("list",jl).num("leak",(long long)mm.outstanding()).str("s",show(in)).done());
    mm.release_all(); g.count("df"+jtext(in)+std::to_string(k*2+from),true); } }
template<class A> static void compose_fault_events(const QList&l,int sp,int nb){ typedef typename A::Ch Ch; RealList<A> rl(l); std::string jl=jq(l);
  long reqs=0; { RecMM mm; Ch*out=nullptr; if(A::ComposeQueryMallocExMm(&out,rl.head(),sp,nb,&mm.mm)==URI_SUCCESS) mm.mm.free(&mm.mm,out); reqs=mm.reqs; mm.release_all(); }
  for(long k=1;k<=reqs+1;++k) for(int from=0;from<2;++from){ RecMM mm; mm.failAt=k; mm.failFrom=from; Ch*out=nullptr;
    g.set_case(J().str("driver","query/compose-fault").raw("list",jl).num("k",k).num("from",from).num("w",A::W).done());
    int rc=A::ComposeQueryMallocExMm(&out,rl.head(),sp,nb,&mm.mm); bool refused=mm.refused>0; mm.failAt=0; std::string jout="[]";
    if(rc==URI_SUCCESS&&out){ size_t n=0; while(out[n]) ++n; jout=jopt_some(to_text<Ch>(out,out+n)); mm.mm.free(&mm.mm,out); }
    g.event(J().str("e","ComposeFault").num("w",A::W).raw("list",jl).boo("sp",sp).boo("nb",nb).num("k",k).boo("from",from).num("rc",rc).boo("refused",refused).raw("out",jout).num("leak",(long long)mm.outstanding()).str("s",showq(l)).done());
    mm.release_all(); g.count("cf"+jl+std::to_string(k*2+from),true); } }

// a manager whose blocks are lazily mapped anonymous memory (address space, not RAM, until touched): lets a worst-case buffer of gigabytes exist
struct LazyMM { UriMemoryManager mm; long live=0;
  static void* lalloc(size_t n){ size_t tot=n+4096; void*p=mmap(nullptr,tot,PROT_READ|PROT_WRITE,MAP_PRIVATE|MAP_ANONYMOUS|MAP_NORESERVE,-1,0); if(p==MAP_FAILED){ errno=ENOMEM; return nullptr; } *(size_t*)p=tot; return (char*)p+4096; }
  static void* lm(UriMemoryManager*m,size_t n){ void*p=lalloc(n); if(p) ++((LazyMM*)m->userData)->live; return p; }
  static void* lc(UriMemoryManager*m,size_t a,size_t b){ size_t t; if(__builtin_mul_overflow(a,b,&t)){ errno=ENOMEM; return nullptr; } return lm(m,t); }
  static void lf(UriMemoryManager*m,void*p){ if(!p) return; --((LazyMM*)m->userData)->live; char*b=(char*)p-4096; munmap(b,*(size_t*)b); }
  static void* lr(UriMemoryManager*m,void*p,size_t n){ if(!p) return lm(m,n); if(!n){ lf(m,p); return nullptr; } size_t old=*(size_t*)((char*)p-4096)-4096; void*q=lm(m,n); if(!q) return nullptr; memcpy(q,p,old<n?old:n); lf(m,p); return q; }
  static void* lra(UriMemoryManager*m,void*p,size_t a,size_t b){ size_t t; if(__builtin_mul_overflow(a,b,&t)){ errno=ENOMEM; return nullptr; } return lr(m,p,t); }
  LazyMM(){ mm.malloc=lm; mm.calloc=lc; mm.realloc=lr; mm.reallocarray=lra; mm.free=lf; mm.userData=this; } };
// a list whose worst-case size is beyond INT_MAX/4 characters but within INT_MAX: 90 items sharing one key of 10^6 plain characters, break
// normalization on (540 000 089).  The limit is one of CHARACTERS for either type; the text actually written is 90 000 089 characters.
template<class A> static void compose_huge_event(){ typedef typename A::Ch Ch; const long KL=1000000, N=90; std::basic_string<Ch> key((size_t)KL,(Ch)'a'); std::vector<typename A::QL> nodes(N);
  for(long i=0;i<N;++i){ nodes[i].key=key.c_str(); nodes[i].value=nullptr; nodes[i].next= i+1<N? &nodes[i+1] : nullptr; }
  g.set_case(J().str("driver","query/huge").num("w",A::W).done()); LazyMM lm; Ch*out=nullptr; int req=-7; int rcq=A::ComposeQueryCharsRequiredEx(nodes.data(),&req,URI_TRUE,URI_TRUE);
  int rc=A::ComposeQueryMallocExMm(&out,nodes.data(),URI_TRUE,URI_TRUE,&lm.mm); long long n=0; bool ok=true;
  if(rc==URI_SUCCESS&&out){ while(out[n]) ++n; for(long long i=0;i<n&&ok;++i){ bool sep=((i+1)%(KL+1))==0; if(out[i]!=(Ch)(sep?'&':'a')) ok=false; } lm.mm.free(&lm.mm,out); }
  g.event(J().str("e","ComposeMallocHuge").num("w",A::W).num("items",N).num("klen",KL).boo("nb",true).num("rcreq",rcq).num("reqm",req/1000000).num("rc",rc).num("outlen",n).boo("textOK",ok).num("leak",lm.live).done()); g.count("huge",true); }

VH_DRIVER(query){
  long want=atol(arg_value(argc,argv,"--n",g.thorough?"500000":"40000")); Rng R(g.seed); Guarded ar(1<<20);
  std::vector<int> alpha={'a','&','=','+',' ','%',13,10,255,'4','1'};
  std::vector<Text> texts; int L=2; for(int len=0;len<=L;++len){ std::vector<int> ix(len,0); while(true){ Text t; for(int i=0;i<len;++i) t.push_back(alpha[ix[i]]); texts.push_back(t); int i=len-1; while(i>=0&&++ix[i]==(int)alpha.size()){ ix[i]=0; --i; } if(i<0) break; } }
  std::vector<QList> lists;   // (an empty list is a NULL pointer, which the API rejects with URI_ERROR_NULL: outside the property's domain)
  for(auto&k:texts){ lists.push_back({{k,false,{}}}); lists.push_back({{k,true,{}}}); for(size_t vi=0;vi<texts.size();vi+=3) lists.push_back({{k,true,texts[vi]}}); }
  for(int i=0;i<(g.thorough?60000:6000);++i){ QList l; int n=1+R.below(4); for(int j=0;j<n;++j){ QItem it; it.k=texts[R.below((int)texts.size())]; it.hasv=R.below(3)!=0; if(it.hasv&&R.below(3)) it.v=texts[R.below((int)texts.size())]; if(R.below(10)==0){ int m=R.below(30); for(int q=0;q<m;++q) it.k.push_back(1+R.below(255)); } l.push_back(it);} lists.push_back(l); }
  // zero-slack lists: every character expands fully (worst case reached), empty values, empty keys
  for(int nb=0;nb<2;++nb){ Text full= nb? Text{13,10,13}: Text{'&','=',255}; lists.push_back({{full,true,{}}}); lists.push_back({{{},true,{}}}); lists.push_back({{{},true,full},{full,false,{}}}); lists.push_back({{full,true,full},{{},true,{}},{full,true,{}}}); }
  // the line-break state of the escaper inside keys and values: all strings up to length 4 over {CR, LF, space, 'a'} as key and as value;
  // these come first and are never subsampled (the composed text must dissect back to the list for every flag combination)
  size_t nmust=0; { std::vector<int> br={13,10,32,'a'}; std::vector<QList> must; int ML=g.thorough?5:4;
    for(int len=2;len<=ML;++len){ std::vector<int> ix(len,0); while(true){ Text t; for(int i=0;i<len;++i) t.push_back(br[ix[i]]); bool hasbr=false; for(int c:t) if(c==13||c==10) hasbr=true;
        if(hasbr){ must.push_back({{t,false,{}}}); must.push_back({{T("k"),true,t}}); } int i=len-1; while(i>=0&&++ix[i]==(int)br.size()){ ix[i]=0; --i; } if(i<0) break; } }
    nmust=must.size(); lists.insert(lists.begin(),must.begin(),must.end()); }
  // length family: the allocating variant for every size figure up to a few thousand characters (whatever threshold an implementation
  // switches strategy at - a stack buffer, a size class - lies on the way), in shapes with zero slack: the figure is reached exactly
  { g_only_malloc=true; long q=0; int LM= g.thorough? 1400 : 360; std::vector<int> Ls; for(int L=0;L<=LM;++L) Ls.push_back(L);
    for(int P:{2048,4096,8192}){ if(P==8192&&!g.thorough) continue; for(int d=-2;d<=2;++d){ if(P/3+d>LM) Ls.push_back(P/3+d); if(P/6+d>LM) Ls.push_back(P/6+d); } }
    for(int L:Ls) for(int shape=0;shape<3;++shape) for(int nb=0;nb<2;++nb){ if(nb && L>LM/2 && L<=LM) continue; ++q; Text full(L, nb? 10 : '&'); QList l;
      if(shape==0) l={{{},true,full}}; else if(shape==1){ if(!L) continue; l={{full,false,{}}}; } else { if(!L) continue; l={{full,false,{}},{{},true,{}}}; }
      int sp=(int)(q%2), ep=(int)(q%3); AW(true,q%2,[&]{ compose_events<ApiA>(ar,l,sp,nb,ep,false); },[&]{ compose_events<ApiW>(ar,l,sp,nb,ep,false); }); g.count("len"+std::to_string(L)+"/"+std::to_string(shape*2+nb),true); }
    g_only_malloc=false; }
  size_t total=lists.size()*4; double keep= total*12>(size_t)want? (double)want/(total*12):1.0; long k=0; size_t li=0;
  for(auto&l:lists){ bool forced= li++<nmust; for(int sp=0;sp<2;++sp) for(int nb=0;nb<2;++nb){ ++k; if(!forced && keep<1.0 && (R.next()%1000000)>=keep*1000000) continue; bool allcaps = (k%5==0)||l.size()<=1; int ep=(int)(k%3);
    if(forced) allcaps=false;
    AW(true,k%2,[&]{ compose_events<ApiA>(ar,l,sp,nb,ep,allcaps); },[&]{ compose_events<ApiW>(ar,l,sp,nb,ep,allcaps); }); g.count(jq(l)+std::to_string(sp*2+nb),!l.empty()); if(k%3001==0) g.sample(J().str("list",showq(l)).num("sp",sp).num("nb",nb).done()); } }
  // dissection of every arrangement of & = a %41 + up to length 5 (6 thorough), plus random
  // line-break conversion while dissecting: every arrangement up to length 4 (5 thorough) of CR, LF (escaped, either hex case), '+', space-less
  // text and separators, under EVERY conversion mode and both plus settings (the unescaper carries a CR state across characters)
  { std::vector<Text> bt={T("%0D"),T("%0A"),T("+"),T("a"),T("&"),T("="),T("%0d%0a")}; int BL=g.thorough?5:4; long q=0;
    for(int len=1;len<=BL;++len){ std::vector<int> ix(len,0); while(true){ Text t; bool br=false; for(int i=0;i<len;++i){ t.insert(t.end(),bt[ix[i]].begin(),bt[ix[i]].end()); if(ix[i]<2||ix[i]==6) br=true; }
        if(br) for(int ps=0;ps<2;++ps) for(int conv=0;conv<4;++conv){ ++q; int ep=(int)((q>>3)%3); AW(true,q%2,[&]{ dissect_event<ApiA>(ar,t,ps,conv,ep); },[&]{ dissect_event<ApiW>(ar,t,ps,conv,ep); }); g.count(jtext(t)+"b"+std::to_string(ps*4+conv),true); }
        int i=len-1; while(i>=0&&++ix[i]==(int)bt.size()){ ix[i]=0; --i; } if(i<0) break; } } }
  { std::vector<Text> toks={T("&"),T("="),T("a"),T("%41"),T("+"),T("%0D%0A"),T("%")}; int DL=g.thorough?6:4; std::vector<Text> ins;
    for(int len=0;len<=DL;++len){ std::vector<int> ix(len,0); while(true){ Text t; for(int i=0;i<len;++i) t.insert(t.end(),toks[ix[i]].begin(),toks[ix[i]].end()); ins.push_back(t); int i=len-1; while(i>=0&&++ix[i]==(int)toks.size()){ ix[i]=0; --i; } if(i<0) break; } }
    double kd= ins.size()*2>(size_t)want/3? (double)(want/3)/(ins.size()*2):1.0; long q=0;
    for(auto&t:ins) for(int ps=0;ps<2;++ps){ ++q; if(kd<1.0 && (R.next()%1000000)>=kd*1000000) continue; int conv=(int)((q>>1)%4), ep=(int)((q>>3)%3); /* (q's parity is ps) */ AW(true,q%2,[&]{ dissect_event<ApiA>(ar,t,ps,conv,ep); },[&]{ dissect_event<ApiW>(ar,t,ps,conv,ep); }); g.count(jtext(t)+std::to_string(ps),!t.empty()); } }
  // failing requests inside the allocating calls
  { long q=0; for(const char*t:{"k1=v1&flag&=x%26y&a+b=","a=b","a","=","a=&=b&&c=%41+%0D%0A","k=v&k2","&&","x=%0D%0A%0d&y=1+2"}) for(int ps=0;ps<2;++ps) for(int conv:{0,3}){ ++q; AW(true,q%2,[&]{ query_fault_events<ApiA>(T(t),ps,conv); },[&]{ query_fault_events<ApiW>(T(t),ps,conv); }); }
    std::vector<QList> fl={ {{T("k"),true,T("v")}}, {{T("key one"),true,T("v\r\n")},{T("k2"),false,{}}}, {{{},true,{}}}, {{Text(1500,'a'),true,Text(700,'b')}}, {{T("a b"),true,T("c&d")},{T("e"),true,{}},{T("f"),false,{}}} };
    for(auto&l:fl) for(int sp=0;sp<2;++sp) for(int nb=0;nb<2;++nb){ ++q; AW(true,q%2,[&]{ compose_fault_events<ApiA>(l,sp,nb); },[&]{ compose_fault_events<ApiW>(l,sp,nb); }); } }
  if(g.pair) AW(true,true,[&]{ compose_huge_event<ApiA>(); },[&]{ compose_huge_event<ApiW>(); }); else { compose_huge_event<ApiA>(); compose_huge_event<ApiW>(); }
  // size arithmetic at real scale: key and value of 2*10^8 characters each (measuring call only in quick; UBSan makes a signed overflow a crash)
  { size_t n=200u*1000u*1000u; for(int variant=0;variant<2;++variant){ std::string big(n, variant? 'a':'\r'); UriQueryListA item; item.key=big.c_str(); item.value=big.c_str(); item.next=nullptr; int req=-7; g.set_case(J().str("driver","query/giant").num("variant",variant).done());
      for(int nb=0;nb<2;++nb){ int rc=uriComposeQueryCharsRequiredExA(&item,&req,URI_TRUE,nb);
        g.event(J().str("e","ComposeReqGiant").num("km",200).num("vm",200).boo("nb",nb).num("rc",rc).boo("nonneg",req>=0).num("reqm",req/1000000).done()); } } }
  // one single key (or value) whose worst-case expansion alone exceeds INT_MAX (8*10^8 characters), measured and handed to the allocating
  // variant: both must refuse, the allocating one without producing a string; and the allocating variant on the 2*10^8 pair with break
  // normalization (also beyond INT_MAX)
  { size_t n=800u*1000u*1000u; std::string big(n,'a'); const char*e=big.c_str()+n; g.set_case(J().str("driver","query/giant-single").done());
    struct Sh{ const char*k; const char*v; int km,vm; }; Sh shapes[]={{big.c_str(),nullptr,800,0},{e,big.c_str(),0,800},{e-200000000,e-200000000,200,200}};
    for(auto&sh:shapes) for(int nb=0;nb<2;++nb){ UriQueryListA item; item.key=sh.k; item.value=sh.v; item.next=nullptr; int req=-7;
      int rc=uriComposeQueryCharsRequiredExA(&item,&req,URI_TRUE,nb);
      g.event(J().str("e","ComposeReqGiant").num("km",sh.km).num("vm",sh.vm).boo("nb",nb).num("rc",rc).boo("nonneg",req>=0).num("reqm",req/1000000).done());
      if((nb?6:3)*(sh.km+sh.vm)>2147){ char*out=(char*)0x1; int rcm=uriComposeQueryMallocExA(&out,&item,URI_TRUE,nb);
        bool textOK=false; if(rcm==URI_SUCCESS&&out&&out!=(char*)0x1){ /* an implementation that sizes the text exactly may succeed: then the text must be right */
          size_t kl=(size_t)sh.km*1000000u, vl=(size_t)sh.vm*1000000u, want=kl+(sh.v? 1+vl:0), n=strlen(out); textOK= n==want; for(size_t i=0;i<n&&textOK;++i) if(out[i]!=((sh.v&&i==kl)?'=':'a')) textOK=false; }
        g.event(J().str("e","ComposeMallocGiant").num("km",sh.km).num("vm",sh.vm).boo("nb",nb).num("rc",rcm).boo("untouched",out==(char*)0x1||out==nullptr).boo("textOK",textOK).done()); if(rcm==URI_SUCCESS&&out&&out!=(char*)0x1) free(out); } }
    // WRITING such a text into a destination of 64 characters (ending at a guard page): the space test must not wrap either - a key (or value)
    // one character short of the per-string limit, behind a few characters already written
    for(int nb=0;nb<2;++nb) for(int asval=0;asval<2;++asval){ size_t kl=(size_t)2147483647/(nb?6:3)-1; UriQueryListA i1,i2; i1.key="12345678"; i1.value= asval? e-kl : nullptr; i1.next= asval? nullptr : &i2; i2.key=e-kl; i2.value=nullptr; i2.next=nullptr;
      char*d=(char*)ar.tail(64); memset(d,0xEE,64); int w=-9, rc=-9; g.set_case(J().str("driver","query/giant-write").num("nb",nb).num("asval",asval).done());
      int fault=guarded_call([&]{ rc=uriComposeQueryExA(d,&i1,64,&w,URI_TRUE,nb?URI_TRUE:URI_FALSE); });
      g.event(J().str("e","ComposeGiantWrite").boo("nb",nb).boo("asval",asval).num("cap",64).num("klm",(long long)(kl/1000000)).num("rc",rc).num("fault",fault).done()); } }
  // the INT_MAX boundary itself: lists whose exact worst-case size is INT_MAX-3 .. INT_MAX+3.  All keys point into ONE shared buffer of 2^20
  // characters (the measuring call only walks them), empty-key filler items (one '&' each) tune the total to the character; the last item comes
  // with and without a value.  Lengths are logged, TLC adds them up in base 2^20 (its integers are 32 bit).
  { const long M=1<<20; std::string buf((size_t)M,'a'); const char*end=buf.c_str()+M; g.set_case(J().str("driver","query/boundary").done());
    for(int nb=0;nb<2;++nb) for(int lastval=0;lastval<2;++lastval) for(long d=-3;d<=3;++d){ const long long W=nb?6:3, target=2147483647LL+d;
      long long nfull=(target-8*W*1000)/(W*M+1); std::vector<std::array<long,3>> items; long long total=0;
      for(long long i=0;i<nfull;++i){ items.push_back({M,0,0}); total+= (i?1:0)+W*M; }
      // what the last item must contribute: '&' + W*klen (+ '=' + W*vlen); fillers absorb the remainder modulo W
      long long rest=target-total-1-(lastval?1:0); if(rest<0) continue; long long fill=rest%W; rest-=fill; long long chars=rest/W; if(chars>2*M-2||chars<1) continue;
      for(long long i=0;i<fill;++i) items.push_back({0,0,0});
      long klen= lastval? (long)(chars/2) : (long)chars, vlen= lastval? (long)(chars-chars/2) : 0; if(klen>M||vlen>M) continue; items.push_back({klen,lastval,vlen});
      std::vector<UriQueryListA> nodes(items.size()); for(size_t i=0;i<items.size();++i){ nodes[i].key=end-items[i][0]; nodes[i].value= items[i][1]? end-items[i][2] : nullptr; nodes[i].next= i+1<items.size()? &nodes[i+1] : nullptr; }
      int req=-7; int rc=uriComposeQueryCharsRequiredExA(nodes.data(),&req,URI_TRUE,nb?URI_TRUE:URI_FALSE);
      std::vector<std::string> ji; for(auto&it:items) ji.push_back("["+std::to_string(it[0])+","+std::to_string(it[1])+","+std::to_string(it[2])+"]");
      long long r= req<0? 0 : req;
      g.event(J().str("e","ComposeReqBoundary").boo("nb",nb).num("d",d).raw("items",jlist(ji)).num("rc",rc).boo("nonneg",req>=0).num("reqhi",r>>20).num("reqlo",r&(M-1)).done()); g.count("boundary"+std::to_string(nb*100+lastval*10+d),true);
      // the allocating variant when the figure is INT_MAX or beyond: the terminator no longer fits an int - refused, nothing handed out
      if(d>=0){ char*out=(char*)0x1; int rcm=uriComposeQueryMallocExA(&out,nodes.data(),URI_TRUE,nb?URI_TRUE:URI_FALSE);
        bool textOK=false; if(rcm==URI_SUCCESS&&out&&out!=(char*)0x1){ size_t want=items.size()-1; for(auto&it:items) want+=(size_t)it[0]+(it[1]? 1+(size_t)it[2]:0); size_t n=strlen(out); textOK= n==want; for(size_t i=0;i<n&&textOK;++i) if(out[i]!='a'&&out[i]!='&'&&out[i]!='=') textOK=false; }
        g.event(J().str("e","ComposeMallocBoundary").boo("nb",nb).num("d",d).raw("items",jlist(ji)).num("rc",rcm).boo("untouched",out==(char*)0x1||out==nullptr).boo("textOK",textOK).done()); if(rcm==URI_SUCCESS&&out&&out!=(char*)0x1) free(out); } } }
  return 0;
}
