// d_ledger.cpp — C13: every function that takes a memory manager, with a recording manager (nothing may bypass it: libc allocation
// from inside the call is itself an event thanks to -Wl,--wrap), with the default manager (wrapped libc is the ledger), with a manager
// completed by uriCompleteMemoryManager, and with every incomplete manager.
#include "vh.h"
#include "factory.h"
static Text operator+(Text a,const Text&b){ a.insert(a.end(),b.begin(),b.end()); return a; }
struct Phase { std::string mem="[]", libc="[]"; };
static std::string libc_since(size_t mark){ std::vector<MemEv> v(g_libc_log.begin()+mark,g_libc_log.end()); return jmemlog(v); }

// mmkind: 0 recording manager, 1 default manager (NULL / non-Mm entry points), 2 completed manager over a recording backend
template<class A> static void ledger_case(int op,const Text&x,const Text&y,unsigned arg,int mmkind){
  typedef typename A::Ch Ch; typedef typename A::Uri Uri; RecMM rec; UriMemoryManager completed; memset(&completed,0,sizeof completed); UriMemoryManager*mm=nullptr;
  if(mmkind==0) mm=&rec.mm; else if(mmkind==2){ UriMemoryManager*backend=&rec.mm; backend->calloc=nullptr; backend->realloc=nullptr; backend->reallocarray=nullptr; if(uriCompleteMemoryManager(&completed,backend)!=URI_SUCCESS) return; mm=&completed; }
  std::basic_string<Ch> sx=to_str<Ch>(x), sy=to_str<Ch>(y); const Ch*e; int rc=-9; static const char*OPN[]={"parse","addbase","removebase","normalize","makeowner","dissect","composemalloc","normalize-owned"};
  g.set_case(J().str("driver","ledger").str("op",OPN[op]).raw("x",jtext(x)).raw("y",jtext(y)).num("arg",arg).num("mm",mmkind).num("w",A::W).done());
  g_libc_log.clear(); g_libc_live.clear(); g_libc_bad=false; std::vector<Phase> ph; std::vector<std::string> names;
  auto phase=[&](const char*name,std::function<void()> f){ rec.reset(); size_t mark=g_libc_log.size(); { LibScope ls; f(); } Phase p; p.mem=rec.jlog(); p.libc=libc_since(mark); ph.push_back(p); names.push_back(name); };
  Uri u,d; memset(&u,0,sizeof u); memset(&d,0,sizeof d); typename A::QL*ql=nullptr; Ch*out=nullptr; int cnt=0; std::shared_ptr<Holder<A>> ha,hb;
  auto freeu=[&](Uri*p){ if(mm) A::FreeUriMembersMm(p,mm); else A::FreeUriMembers(p); };
  switch(op){
    case 0: phase("call",[&]{ rc= mm? A::ParseSingleUriExMm(&u,sx.data(),sx.data()+sx.size(),&e,mm) : A::ParseSingleUriEx(&u,sx.data(),sx.data()+sx.size(),&e); }); phase("release",[&]{ freeu(&u); }); phase("refree",[&]{ freeu(&u); freeu(&u); }); break;
    case 1: case 2: ha=parse_holder<A>(x); hb=parse_holder<A>(y); if(!ha->ok||!hb->ok) return;
      phase("call",[&]{ rc= op==1 ? (mm? A::AddBaseUriExMm(&d,&ha->uri,&hb->uri,(UriResolutionOptions)(arg&1),mm) : A::AddBaseUriEx(&d,&ha->uri,&hb->uri,(UriResolutionOptions)(arg&1)))
                                  : (mm? A::RemoveBaseUriMm(&d,&ha->uri,&hb->uri,(UriBool)(arg&1),mm) : A::RemoveBaseUri(&d,&ha->uri,&hb->uri,(UriBool)(arg&1))); });
      phase("release",[&]{ freeu(&d); }); phase("refree",[&]{ freeu(&d); freeu(&d); }); break;
    case 3: case 4: case 7:
      phase("setup",[&]{ rc= mm? A::ParseSingleUriExMm(&u,sx.data(),sx.data()+sx.size(),&e,mm) : A::ParseSingleUriEx(&u,sx.data(),sx.data()+sx.size(),&e); if(rc==URI_SUCCESS&&op==7) rc= mm? A::MakeOwnerMm(&u,mm):A::MakeOwner(&u); }); if(rc!=URI_SUCCESS){ LibScope ls; freeu(&u); return; }
      phase("call",[&]{ rc= op==4 ? (mm? A::MakeOwnerMm(&u,mm):A::MakeOwner(&u)) : (mm? A::NormalizeSyntaxExMm(&u,arg,mm):A::NormalizeSyntaxEx(&u,arg)); });
      phase("release",[&]{ freeu(&u); }); phase("refree",[&]{ freeu(&u); freeu(&u); }); break;
    case 5: phase("call",[&]{ rc= mm? A::DissectQueryMallocExMm(&ql,&cnt,sx.data(),sx.data()+sx.size(),URI_TRUE,URI_BR_TO_LF,mm) : A::DissectQueryMallocEx(&ql,&cnt,sx.data(),sx.data()+sx.size(),URI_TRUE,URI_BR_TO_LF); });
      phase("release",[&]{ if(rc==URI_SUCCESS){ if(mm) A::FreeQueryListMm(ql,mm); else A::FreeQueryList(ql);} }); break;
    case 6:{ typename A::QL a,b; a.key=sx.c_str(); a.value=sy.c_str(); a.next=&b; b.key=sy.c_str(); b.value=nullptr; b.next=nullptr;
      phase("call",[&]{ rc= mm? A::ComposeQueryMallocExMm(&out,&a,URI_TRUE,URI_FALSE,mm) : A::ComposeQueryMallocEx(&out,&a,URI_TRUE,URI_FALSE); });
      phase("release",[&]{ if(rc==URI_SUCCESS){ if(mm) mm->free(mm,out); else free(out);} }); break; }
  }
  std::vector<std::string> pj; for(size_t i=0;i<ph.size();++i) pj.push_back(J().str("name",names[i]).raw("mem",ph[i].mem).raw("libc",ph[i].libc).done());
  g.event(J().str("e","MmOp").str("op",OPN[op]).num("w",A::W).num("arg",arg).num("mm",mmkind).num("rc",rc).raw("phases",jlist(pj)).num("leak",(long long)rec.outstanding()).boo("bad",rec.bad||g_libc_bad).num("libcleak",(long long)g_libc_live.size()).str("x",show(x)).str("y",show(y)).done());
  rec.release_all(); g.count(std::string(OPN[op])+jtext(x)+jtext(y)+std::to_string(arg)+std::to_string(mmkind),true); }

// every incomplete manager (31 proper subsets of the five functions) x the nine functions that take a manager
template<class A> static void incomplete_cases(){
  typedef typename A::Ch Ch; std::basic_string<Ch> s=to_str<Ch>(T("s://h/a?k=v")); const Ch*e;
  for(int subset=0;subset<31;++subset){ RecMM rec; UriMemoryManager m=rec.mm; if(!(subset&1)) m.malloc=nullptr; if(!(subset&2)) m.calloc=nullptr; if(!(subset&4)) m.realloc=nullptr; if(!(subset&8)) m.reallocarray=nullptr; if(!(subset&16)) m.free=nullptr;
    auto h=parse_holder<A>(T("s://h/a?k=v")); auto b=parse_holder<A>(T("s://h/b")); typename A::Uri u,d; memset(&u,0,sizeof u); memset(&d,0,sizeof d); typename A::QL*ql=nullptr; int cnt=0; Ch*out=nullptr; typename A::QL item; item.key=s.c_str(); item.value=nullptr; item.next=nullptr;
    int rcs[9]; size_t mark=g_libc_log.size(); { LibScope ls;
      rcs[0]=A::ParseSingleUriExMm(&u,s.data(),s.data()+s.size(),&e,&m); rcs[1]=A::FreeUriMembersMm(&h->uri,&m); rcs[2]=A::AddBaseUriExMm(&d,&h->uri,&b->uri,URI_RESOLVE_STRICTLY,&m); rcs[3]=A::RemoveBaseUriMm(&d,&h->uri,&b->uri,URI_FALSE,&m);
      rcs[4]=A::NormalizeSyntaxExMm(&h->uri,63,&m); rcs[5]=A::MakeOwnerMm(&h->uri,&m); rcs[6]=A::DissectQueryMallocExMm(&ql,&cnt,s.data(),s.data()+s.size(),URI_FALSE,URI_BR_DONT_TOUCH,&m); rcs[7]=A::ComposeQueryMallocExMm(&out,&item,URI_FALSE,URI_FALSE,&m); rcs[8]=A::FreeQueryListMm(nullptr,&m); }
    Text rct(rcs,rcs+9); g.event(J().str("e","MmIncomplete").num("w",A::W).num("subset",subset).raw("rcs",jtext(rct)).raw("mem",rec.jlog()).raw("libc",libc_since(mark)).done()); g.count("incomplete"+std::to_string(subset)+std::to_string(A::W),true); } }

VH_DRIVER(ledger){
  Rng R(g.seed); bool th=g.thorough;
  std::vector<Text> uris; for(const char*s:{"s://u@h:1/a/b?q#f","//[::1]/x/y","//1.2.3.4:80/a","//[vF.X]:9/p/q/r","s:a/b/c","/a/b/../c/./d","a/./b/../../c","S://U%41@H%42:1/%41a/%42b/../c?%43#%44","//h:1/x","s://h/a/b/..","file:///","","?q","../../x","s:/./a//b","//h//","a/..","/.//x","s:.//a","b:c/../d:e","//[VA.b]"}) uris.push_back(T(s));
  long nuri=atol(arg_value(argc,argv,"--uris",th?"400":"40"));
  for(long i=0;i<nuri;++i){ Text t; const char*sc[]={"","s:","S+x:"}; const char*au[]={"","//h","//u%41@H:1","//[::1]","//1.2.3.4","//[vA.b]","//"}; t=T(sc[R.below(3)])+T(au[R.below(7)]); int n=R.below(7); for(int j=0;j<n;++j){ t.push_back('/'); const char*sg[]={"a",".","..","%41","","b%2Fc","x:y"}; t=t+T(sg[R.below(7)]); } if(R.below(2)) t=t+T("?q%41"); if(R.below(2)) t=t+T("#f%42"); uris.push_back(t); }
  std::vector<Text> bases; for(const char*s:{"s://g/x/y?z","s://1.2.3.4/x/","s://[::2]/a/b/c","s:/x/y","s://u@h:1/a/b?q#f","t://g/","s://h/a/b/c"}) bases.push_back(T(s));
  long k=0;
  for(auto&u:uris) for(int mmk=0;mmk<3;++mmk){ ++k;
    if(k%2) ledger_case<ApiA>(0,u,{},0,mmk); else ledger_case<ApiW>(0,u,{},0,mmk);
    for(size_t bi=0;bi<bases.size();++bi){ if(!th&&(k+bi)%2) continue; if((k+bi)%4<2){ ledger_case<ApiA>(1,u,bases[bi],(unsigned)bi,mmk); ledger_case<ApiW>(2,u,bases[bi],(unsigned)bi,mmk); } else { ledger_case<ApiW>(1,u,bases[bi],(unsigned)bi,mmk); ledger_case<ApiA>(2,u,bases[bi],(unsigned)bi,mmk); } }
    static const unsigned masks[]={63,0,1,2,4,8,16,32,12,0xFFFFFFFFu}; for(int mi=0;mi<10;++mi){ if(!th&&mi>2&&(k+mi)%3) continue; if((k+mi)%2){ ledger_case<ApiA>(3,u,{},masks[mi],mmk); ledger_case<ApiW>(7,u,{},masks[mi],mmk); } else { ledger_case<ApiW>(3,u,{},masks[mi],mmk); ledger_case<ApiA>(7,u,{},masks[mi],mmk); } }
    if(k%2) ledger_case<ApiW>(4,u,{},0,mmk); else ledger_case<ApiA>(4,u,{},0,mmk);
    if(k%7==0) g.sample(J().str("uri",show(u)).num("manager_kind",mmk).done()); }
  for(const char*q:{"a=b&c=d&e","a","=","","a=&=b&&c=%41+%0D%0A","k1=v1&k2=v2&k3=v3&k4"}) for(int mmk=0;mmk<3;++mmk){ ledger_case<ApiA>(5,T(q),{},0,mmk); ledger_case<ApiW>(5,T(q),{},0,mmk); }
  for(int mmk=0;mmk<3;++mmk){ ledger_case<ApiA>(6,T("key one"),T("v\r\n"),0,mmk); ledger_case<ApiW>(6,T("k"),T(""),0,mmk); }
  incomplete_cases<ApiA>(); incomplete_cases<ApiW>();
  return 0;
}
