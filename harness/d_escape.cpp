// d_escape.cpp — C16: uriEscape(Ex) / uriUnescapeInPlace(Ex) events for TLC (Trace_Escape).
#include "vh.h"
static Text operator+(Text a,const Text&b){ a.insert(a.end(),b.begin(),b.end()); return a; }

template<class A> static void escape_event(Guarded&in_ar,Guarded&out_ar,const Text&in,bool explicit_range,int sp,int nb){
  typedef typename A::Ch Ch; size_t n=in.size(); size_t cap=(nb?6:3)*n+1;
  Ch*src=in_ar.put<Ch>(in,!explicit_range); Ch*dst=(Ch*)out_ar.tail(cap*sizeof(Ch)); for(size_t i=0;i<cap;++i) dst[i]=(Ch)0xEE;
  // every third call: input and output in ONE buffer, the output starting exactly where the input (and its terminator) ends - adjacent is not overlapping
  { static unsigned long layout=0; size_t need=n+(explicit_range?0:1); if((layout++)%3==0 && need>0 && (char*)(dst-need)>=out_ar.base){   /* (an empty explicit range would coincide with the output: the library takes in == out for an in-place call and refuses) */ src=dst-need; for(size_t i=0;i<n;++i) src[i]=(Ch)in[i]; if(!explicit_range) src[n]=0; } }
  Ch*ret=nullptr; g.set_case(J().str("driver","escape").raw("in",jtext(in)).num("sp",sp).num("nb",nb).num("w",A::W).done());
  int fault=guarded_call([&]{ ret= explicit_range? A::EscapeEx(src,src+n,dst,sp,nb) : A::Escape(src,dst,sp,nb); });
  long off= (fault||!ret)? -1 : (long)(ret-dst); Text out; bool term=false; if(off>=0&&off<(long)cap){ out=to_text<Ch>(dst,dst+off); term=(dst[off]==0); }
  g.event(J().str("e","Escape").num("w",A::W).raw("in",jtext(in)).boo("ex",explicit_range).boo("sp",sp).boo("nb",nb).raw("out",jtext(out)).num("ret",off).boo("term",term).num("fault",fault).done()); }

template<class A> static void unescape_event(Guarded&ar,const Text&in,int ps,int conv,bool plain){
  typedef typename A::Ch Ch; size_t n=in.size(); Ch*buf=ar.put<Ch>(in,true); const Ch*ret=nullptr;
  g.set_case(J().str("driver","unescape").raw("in",jtext(in)).num("ps",ps).num("conv",conv).num("w",A::W).done());
  int fault=guarded_call([&]{ ret= plain? A::UnescapeInPlace(buf) : A::UnescapeInPlaceEx(buf,ps,(UriBreakConversion)conv); });
  long off=(fault||!ret)? -1 : (long)(ret-buf); Text out; bool term=false; if(off>=0&&off<=(long)n){ out=to_text<Ch>(buf,buf+off); term=(buf[off]==0); }
  g.event(J().str("e","Unescape").num("w",A::W).raw("in",jtext(in)).boo("ps",plain?0:ps).num("conv",plain?3:conv).raw("out",jtext(out)).num("ret",off).boo("term",term).num("fault",fault).done()); }

VH_DRIVER(escape){
  long want=atol(arg_value(argc,argv,"--n",g.thorough?"600000":"45000")); Rng R(g.seed); Guarded a1(1<<16),a2(1<<18),a3(1<<16);
  std::vector<int> reps={'a',' ',13,10,'%','+','0','A','f','g',1,127,255,'4','~','-'};
  std::vector<Text> in; int L=g.thorough?5:3;
  for(int len=0;len<=L;++len){ std::vector<int> ix(len,0); while(true){ Text t; for(int i=0;i<len;++i) t.push_back(reps[ix[i]]); in.push_back(t); int i=len-1; while(i>=0&&++ix[i]==(int)reps.size()){ ix[i]=0; --i; } if(i<0) break; } }
  // every code point 1..255 alone and in context (after CR, before LF, after '%', inside a triplet)
  for(int c=1;c<=255;++c){ in.push_back(Text{c}); in.push_back(Text{13,c}); in.push_back(Text{c,10}); in.push_back(Text{'%',c}); in.push_back(Text{'%','4',c}); in.push_back(Text{'%',c,'1'}); in.push_back(Text{'a',c,'%','4','1',c}); in.push_back(T("%41")+Text{'%','0',c}); in.push_back(T("%20%")+Text{c,'g'}); }
  for(const char*s:{"%0D%0A","%0d%0a","%0D%0D%0A%0A","%0A%0D","%41%0g","%20%0g","%41%4","%41%","%%41","%4%41","+%2B+","%00a","a%00","%0D\n","\r%0A","\r\n","%e4%F6%fC"}) in.push_back(T(s));
  for(int i=0;i<(g.thorough?20000:1500);++i){ Text t; int n=R.below(60); for(int j=0;j<n;++j){ int k=R.below(10); if(k<3) t.push_back(1+R.below(255)); else if(k<5){ t.push_back('%'); if(R.below(4)) t.push_back("0123456789abcdefABCDEFgG%"[R.below(25)]); if(R.below(3)) t.push_back("0123456789abcdefABCDEF"[R.below(22)]); } else t.push_back(reps[R.below((int)reps.size())]); } in.push_back(t); }
  // the line-break state (CR, LF, CR LF, with spaces / ordinary characters in between) is covered systematically and never subsampled:
  // all strings up to length 4 (thorough 5) over {CR, LF, space, 'a'} come first and are always kept
  std::vector<Text> must; { std::vector<int> br={13,10,32,'a'}; int ML=g.thorough?5:4; for(int len=1;len<=ML;++len){ std::vector<int> ix(len,0); while(true){ Text t; for(int i=0;i<len;++i) t.push_back(br[ix[i]]); must.push_back(t); int i=len-1; while(i>=0&&++ix[i]==(int)br.size()){ ix[i]=0; --i; } if(i<0) break; } } }
  { std::vector<Text> tok={T("%0D"),T("%0A"),T("%41"),T("%"),T("4"),T("g"),T("+"),T("%4"),T("\r"),T("\n")}; int TL=g.thorough?4:3;
    for(int len=1;len<=TL;++len){ std::vector<int> ix(len,0); while(true){ Text t; for(int i=0;i<len;++i) t.insert(t.end(),tok[ix[i]].begin(),tok[ix[i]].end()); must.push_back(t); int i=len-1; while(i>=0&&++ix[i]==(int)tok.size()){ ix[i]=0; --i; } if(i<0) break; } } }
  size_t nmust=must.size(); in.insert(in.begin(),must.begin(),must.end());
  long per=8+16; size_t total=in.size()*per; double keep= total>(size_t)want? (double)want/total:1.0; long k=0; size_t idx=0;
  for(auto&t:in){ bool narrow=true; for(int c:t) if(c>255) narrow=false; double keep_save=keep; if(idx++<nmust) keep=1.0; struct Restore{ double&k; double v; ~Restore(){ k=v; } } restore{keep,keep_save};
    for(int sp=0;sp<2;++sp) for(int nb=0;nb<2;++nb) for(int ex=0;ex<2;++ex){ ++k; if(keep<1.0 && (R.next()%1000000)>=keep*1000000) continue; AW(narrow,k%2,[&]{ escape_event<ApiA>(a1,a2,t,ex,sp,nb); },[&]{ escape_event<ApiW>(a1,a2,t,ex,sp,nb); }); }
    for(int ps=0;ps<2;++ps) for(int conv=0;conv<4;++conv) for(int wd=0;wd<2;++wd){ ++k; if(keep<1.0 && (R.next()%1000000)>=keep*1000000) continue; bool plain=(ps==0&&conv==3&&((k>>4)%2==0));   /* the two-argument-less variant, for every other text (k counts 16 per text) */ if(g.pair){ if(wd==0) AW(narrow,true,[&]{ unescape_event<ApiA>(a3,t,ps,conv,plain); },[&]{ unescape_event<ApiW>(a3,t,ps,conv,plain); }); } else if(wd==0) unescape_event<ApiA>(a3,t,ps,conv,plain); else unescape_event<ApiW>(a3,t,ps,conv,plain); }
    g.count(jtext(t),!t.empty()); if(k%20011<24) g.sample(J().str("in",show(t)).done()); }
  return 0;
}
