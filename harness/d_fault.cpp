// d_fault.cpp — C14 (and C13 ledger): allocation-failure sweeps.  For every input shape of every operation the k-th request made
// through the supplied manager is failed, for every k from 1 to (requests of the fault-free run)+1, once and from k on.
// One event per run; TLC folds the allocator log through the ledger automaton (Trace_Fault).
#include "vh.h"
#include "factory.h"
static Text operator+(Text a,const Text&b){ a.insert(a.end(),b.begin(),b.end()); return a; }

template<class A> static std::string snap(const typename A::Uri&u){ std::string s((const char*)&u,sizeof u); auto rng=[&](const typename A::Range&r){ if(r.first&&r.afterLast&&r.first<=r.afterLast) s.append((const char*)r.first,(const char*)r.afterLast); s.push_back('|'); };
  rng(u.scheme); rng(u.userInfo); rng(u.hostText); rng(u.portText); rng(u.query); rng(u.fragment); if(u.hostData.ip4) s.append((const char*)u.hostData.ip4->data,4); if(u.hostData.ip6) s.append((const char*)u.hostData.ip6->data,16);
  int guard=0; for(auto*p=u.pathHead;p&&guard<100000;p=p->next,++guard){ s.append((const char*)&p->text,sizeof p->text); s.append((const char*)&p->next,sizeof p->next); rng(p->text); } return s; }

struct Run { int rc=-9; std::string pre,mem,cleanup; bool ro=true; int fault=0; size_t leak=0; bool bad=false; long reqs=0; };

// op: 0 parse, 1 addbase, 2 removebase, 3 normalize(borrowed), 4 normalize(owned), 5 makeowner, 6 dissect, 7 composemalloc
template<class A> static Run run_once(int op,const Text&x,const Text&y,unsigned arg,long k,bool from){
  typedef typename A::Ch Ch; typedef typename A::Uri Uri; Run r; RecMM mm; std::basic_string<Ch> sx=to_str<Ch>(x), sy=to_str<Ch>(y); const Ch*e;
  auto arm=[&]{ r.pre=mm.jlog(); mm.reset(); mm.failAt=k; mm.failFrom=from; };
  auto disarm=[&]{ r.reqs=mm.reqs; r.mem=mm.jlog(); mm.reset(); mm.failAt=0; };
  auto finish=[&]{ r.cleanup=mm.jlog(); r.leak=mm.outstanding(); r.bad=mm.bad; mm.release_all(); };
  r.fault=guarded_call([&]{
    switch(op){
      case 0:{ Uri u; arm(); r.rc=A::ParseSingleUriExMm(&u,sx.data(),sx.data()+sx.size(),&e,&mm.mm); disarm(); A::FreeUriMembersMm(&u,&mm.mm); finish(); break; }
      case 1: case 2:{ auto a=parse_holder<A>(x), b=parse_holder<A>(y); if(!a->ok||!b->ok){ r.rc=-8; return; } std::string s1=snap<A>(a->uri), s2=snap<A>(b->uri); Uri d; arm();
               r.rc= op==1? A::AddBaseUriExMm(&d,&a->uri,&b->uri,(UriResolutionOptions)(arg&1),&mm.mm) : A::RemoveBaseUriMm(&d,&a->uri,&b->uri,(UriBool)(arg&1),&mm.mm); disarm();
               r.ro = s1==snap<A>(a->uri)&&s2==snap<A>(b->uri); A::FreeUriMembersMm(&d,&mm.mm); finish(); break; }
      case 3: case 4: case 5:{ Uri u; if(A::ParseSingleUriExMm(&u,sx.data(),sx.data()+sx.size(),&e,&mm.mm)!=URI_SUCCESS){ r.rc=-8; mm.release_all(); return; } if(op==4 && A::MakeOwnerMm(&u,&mm.mm)!=URI_SUCCESS){ r.rc=-8; return; }
               arm(); r.rc= op==5? A::MakeOwnerMm(&u,&mm.mm) : A::NormalizeSyntaxExMm(&u,arg,&mm.mm); disarm(); A::FreeUriMembersMm(&u,&mm.mm); finish(); break; }
      case 6:{ typename A::QL*ql=nullptr; int cnt=0; arm(); r.rc=A::DissectQueryMallocExMm(&ql,&cnt,sx.data(),sx.data()+sx.size(),URI_TRUE,URI_BR_TO_LF,&mm.mm); disarm(); if(r.rc==URI_SUCCESS) A::FreeQueryListMm(ql,&mm.mm); finish(); break; }
      case 7:{ typename A::QL a,b; a.key=sx.c_str(); a.value=sy.c_str(); a.next=&b; b.key=sy.c_str(); b.value=nullptr; b.next=nullptr; Ch*out=nullptr; arm(); r.rc=A::ComposeQueryMallocExMm(&out,&a,URI_TRUE,URI_TRUE,&mm.mm); disarm(); if(r.rc==URI_SUCCESS) mm.mm.free(&mm.mm,out); finish(); break; }
    } });
  return r; }

static const char* OPN[]={"parse","addbase","removebase","normalize","normalize-owned","makeowner","dissect","composemalloc"};
static int g_only=-1;   // --only <op>: restrict the sweep to one operation (C03 uses the parse sweep)
template<class A> static void sweep(int op,const Text&x,const Text&y,unsigned arg,long&runs){ if(g_only>=0&&op!=g_only) return;
  Run base=run_once<A>(op,x,y,arg,0,false); if(base.rc==-8) return;
  long n=base.reqs; std::string key=std::string(OPN[op])+"|"+jtext(x)+"|"+jtext(y)+"|"+std::to_string(arg);
  for(long k=0;k<=n+1;++k) for(int from=0;from<2;++from){ if(k==0&&from) continue;
    g.set_case(J().str("driver","fault").str("op",OPN[op]).raw("x",jtext(x)).raw("y",jtext(y)).num("arg",arg).num("k",k).num("from",from).num("w",A::W).done());
    Run r= k==0? base : run_once<A>(op,x,y,arg,k,from);
    g.event(J().str("e","FaultRun").str("op",OPN[op]).num("w",A::W).num("arg",arg).num("k",k).boo("from",from).num("rc",r.rc).raw("pre",r.pre.empty()?"[]":r.pre).raw("mem",r.mem.empty()?"[]":r.mem).raw("cleanup",r.cleanup.empty()?"[]":r.cleanup)
        .boo("ro",r.ro).num("fault",r.fault).num("leak",(long long)r.leak).boo("bad",r.bad).str("x",show(x)).str("y",show(y)).done());
    ++runs; g.count(key+std::to_string(k*2+from), k>=1&&k<=n); }
  if(runs%97<3) g.sample(J().str("op",OPN[op]).str("x",show(x)).str("y",show(y)).num("arg",arg).num("requests_of_fault_free_run",n).done()); }

VH_DRIVER(fault){
  g_only=atoi(arg_value(argc,argv,"--only","-1")); Rng R(g.seed); long runs=0; bool th=g.thorough;
  std::vector<Text> uris; for(const char*s:{"s://u@h:1/a/b?q#f","//[::1]/x/y","//1.2.3.4:80/a","//[v1.x]:9/p/q/r","s:a/b/c","/a/b/../c/./d","a/./b/../../c","S://U%41@H%42:1/%41a/%42b/../c?%43#%44","http://user@example.org:8080/a/b?q=1#f","//h:1/x","s://h/a/b/..","s://h/a/b/c/d/../x/..","file:///","","?q","#f","//h","s:/./a//b","b:c/../d:e","../../x","s://h//",
    // every host kind with EVERY other component present (each component is one more request that can fail with the others already made)
    "s://u@[v7.X:y]:1/p/q?k=v#f","S://U%41@[2001:DB8::1]:8/P/./q?K=%7e#F","s://u:p@9.8.7.6:5/a/b?c#d","s://u@Reg%2dName.EX:80/p/q?k=v#f","//@[vA.b]?q","//[::]#f",
    // dot removal exposes a first segment that needs the "." guard back (the re-insertion allocates: its failure is a path of its own)
    "s://h/a//..","a//..","/a/b//../..","s:/x//../y//..","./a:b","x/../a:b/c",".//a","x:/.//y","/a/..//b","s:/..//b","a/..//b","%2e/a:b","s:x/..//y/../z"}) uris.push_back(T(s));
  long nuri=atol(arg_value(argc,argv,"--uris",th?"60":"0"));
  for(long i=0;i<nuri;++i){ Text t; const char*sc[]={"","s:","S+x:"}; const char*au[]={"","//h","//u%41@H:1","//[::1]","//1.2.3.4","//[vA.b]"}; t=T(sc[R.below(3)])+T(au[R.below(6)]); int n=R.below(7); for(int j=0;j<n;++j){ t.push_back('/'); const char*sg[]={"a",".","..","%41","","b%2Fc","x:y"}; t=t+T(sg[R.below(7)]); } if(R.below(2)) t=t+T("?q%41"); if(R.below(2)) t=t+T("#f%42"); uris.push_back(t); }
  std::vector<Text> bases; for(const char*s:{"s://g/x/y?z","s://1.2.3.4/x/","s://[::2]/a/b/c","s:/x/y","s://u@h:1/a/b?q#f","t://g/"}) bases.push_back(T(s));
  for(size_t i=0;i<uris.size();++i){ const Text&u=uris[i];
    if(i%2) sweep<ApiA>(0,u,{},0,runs); else sweep<ApiW>(0,u,{},0,runs);
    for(size_t bi=0;bi<bases.size();++bi){ if((i+bi)%2) sweep<ApiA>(1,u,bases[bi],(unsigned)(bi&1),runs); else sweep<ApiW>(1,u,bases[bi],(unsigned)(bi&1),runs); }
    for(size_t bi=0;bi<bases.size();++bi){ if((i+bi)%2) sweep<ApiA>(2,u,bases[bi],(unsigned)(bi&1),runs); else sweep<ApiW>(2,u,bases[bi],(unsigned)(bi&1),runs); }
    static const unsigned masks[]={63,1,2,4,8,16,32,12,0xFFFFFFFFu}; for(int mi=0;mi<9;++mi){ unsigned m=masks[mi];
      if((i+mi)%2){ sweep<ApiA>(3,u,{},m,runs); sweep<ApiW>(4,u,{},m,runs); } else { sweep<ApiW>(3,u,{},m,runs); sweep<ApiA>(4,u,{},m,runs); } }
    if(i%2) sweep<ApiW>(5,u,{},0,runs); else sweep<ApiA>(5,u,{},0,runs); }
  // reference creation: every branch that appends a segment of its own ("." for the same / an empty path, ".." per base level, "./" and "/."
  // guards) with each of its requests failing
  { const char* pairs[][2]={{"s://h","s://h/a/b"},{"s://h/","s://h/a/b"},{"s://h/a/b","s://h/a/b?q"},{"s://h/a/b","s://h/a/b"},{"s://h","s://h?q"},{"s://h/a//b","s://h/a/c"},{"s://h/a/b:c","s://h/a/x"},{"s://h/x","s://h/a/b/c/d"},
      {"s://h/a/","s://h/a/b/c"},{"s:/a/b","s:/c/d/e"},{"s:a/b","s:c"},{"s://h//x","s://h/y"},{"s://h/a/b/","s://h/a/b/"},{"s://g/a","s://h/a"},{"s://u@h:1/a","s://h/a"},{"s://[::1]/a/b","s://[::1]/a/c/d"},{"s://1.2.3.4/","s://1.2.3.4/x/y"}};
    long q=0; for(auto&pr:pairs) for(unsigned md=0;md<2;++md){ if((++q)%2) sweep<ApiA>(2,T(pr[0]),T(pr[1]),md,runs); else sweep<ApiW>(2,T(pr[0]),T(pr[1]),md,runs); } }
  // resolution: dot removal that allocates (a trailing ".." needs a fresh empty segment), the ambiguity fix-up of the merged path
  { const char* pairs[][2]={{"g/h","s://g"},{"x/y/z","s:"},{"a/b","s://1.2.3.4"},{"a/b/c","s://[::1]"},{"a/b","s://u@[v1.x]:2"},{"x/y/..","s://g/a/b"},{"../..","s://g/a/b/c/"},{"/a/b/..","s://g"},{".//x","s:/y"},{"..//x","s:/a/b"},{"a/../..//b","s:/x/y"},{"x/..","s:a"},{"..","s://g/a/b/c"},{"./","s://g/a/b"},{"?q","s://g/a/b/../c"},{"//h2/a/../b/..","s://g"},{"s:a/..//b","t://g/"}};
    long q=0; for(auto&pr:pairs) for(unsigned opt=0;opt<2;++opt){ if((++q)%2) sweep<ApiA>(1,T(pr[0]),T(pr[1]),opt,runs); else sweep<ApiW>(1,T(pr[0]),T(pr[1]),opt,runs); } }
  for(const char*q:{"a=b&c=d&e","a","=","a=&=b&&c=%41+%0D%0A","k1=v1&k2=v2&k3=v3&k4"}){ sweep<ApiA>(6,T(q),{},0,runs); sweep<ApiW>(6,T(q),{},0,runs); }
  sweep<ApiA>(7,T("key one"),T("v\r\n"),0,runs); sweep<ApiW>(7,T("k"),T(""),0,runs);
  // long plain text: the worst-case buffer has thousands of unused characters (whatever an implementation does with the slack - shrink,
  // copy to an exact block - is a request that can fail too)
  { Text lk(1500,'a'), lv(700,'b'); sweep<ApiA>(7,lk,lv,0,runs); sweep<ApiW>(7,lk,lv,0,runs); sweep<ApiA>(7,T("k"),lk,0,runs); sweep<ApiW>(7,lv,T(""),0,runs); }
  // long queries for dissection too: many items, long keys and values
  { Text lq; for(int i=0;i<40;++i){ if(i) lq.push_back('&'); lq=lq+T("key")+Text(30,'k'); if(i%3){ lq.push_back('='); lq=lq+Text(i*5,'v'); } } sweep<ApiA>(6,lq,{},0,runs); sweep<ApiW>(6,lq,{},0,runs); }
  return 0;
}
