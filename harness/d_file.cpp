// d_file.cpp — C18: filename <-> URI string conversions, destination buffers sized exactly as documented and ending at a guard page.
#include "vh.h"
static Text operator+(Text a,const Text&b){ a.insert(a.end(),b.begin(),b.end()); return a; }
// what the destination holds BEFORE the call must not matter: poison, zeros, the start of a percent-escape, separators (a caller reuses buffers)
static unsigned long g_prefill=0;
template<class Ch> static void prefill(Ch*d,size_t cap){ static const char* pat[]={"\xEE","","%4","\\","%","a%41"}; unsigned long m=(g_prefill++)%7; if(m==6) m=0;
  const char*p=pat[m]; size_t L=strlen(p); for(size_t i=0;i<cap;++i) d[i]= L? (Ch)(unsigned char)p[i%L] : (Ch)0; }
template<class A> static void file_event(Guarded&a1,Guarded&a2,Guarded&a3,const Text&name,int unix_){
  typedef typename A::Ch Ch; size_t n=name.size(); size_t cap=(unix_?7:8)+3*n+1;
  Ch*src=a1.put<Ch>(name,true); Ch*dst=(Ch*)a2.tail(cap*sizeof(Ch)); prefill(dst,cap); int rc1=-9,rc2=-9;
  g.set_case(J().str("driver","file").raw("name",jtext(name)).num("unix",unix_).num("w",A::W).done());
  int f1=guarded_call([&]{ rc1= unix_? A::UnixFilenameToUriString(src,dst) : A::WindowsFilenameToUriString(src,dst); });
  Text uri; bool term1=false; if(!f1&&rc1==URI_SUCCESS){ size_t k=0; while(k<cap&&dst[k]) ++k; term1=(k<cap); uri=to_text<Ch>(dst,dst+k); }
  // the produced string through the real parser
  int prc=-1; if(term1){ typename A::Uri u; const Ch*e; prc=A::ParseSingleUri(&u,dst,&e); A::FreeUriMembers(&u); }
  // back: destination of exactly len(uri)+1 characters
  Text back; int f2=0; bool term2=false; if(term1){ Ch*us=a1.put<Ch>(uri,true); size_t cap2=uri.size()+1; Ch*d2=(Ch*)a3.tail(cap2*sizeof(Ch)); prefill(d2,cap2);
    f2=guarded_call([&]{ rc2= unix_? A::UriStringToUnixFilename(us,d2) : A::UriStringToWindowsFilename(us,d2); }); if(!f2&&rc2==URI_SUCCESS){ size_t k=0; while(k<cap2&&d2[k]) ++k; term2=(k<cap2); back=to_text<Ch>(d2,d2+k); } }
  g.event(J().str("e","FileRound").num("w",A::W).raw("name",jtext(name)).boo("unix",unix_).num("rc1",rc1).num("f1",f1).boo("term1",term1).raw("uri",jtext(uri)).num("prc",prc).num("rc2",rc2).num("f2",f2).boo("term2",term2).raw("back",jtext(back)).str("s",show(name)).done()); }
template<class A> static void tofile_event(Guarded&a1,Guarded&a3,const Text&uri,int unix_){
  typedef typename A::Ch Ch; Ch*us=a1.put<Ch>(uri,true); size_t cap2=uri.size()+1; Ch*d2=(Ch*)a3.tail(cap2*sizeof(Ch)); prefill(d2,cap2); int rc2=-9;
  g.set_case(J().str("driver","file/to").raw("uri",jtext(uri)).num("unix",unix_).done());
  int f2=guarded_call([&]{ rc2= unix_? A::UriStringToUnixFilename(us,d2) : A::UriStringToWindowsFilename(us,d2); }); Text back; bool term2=false; if(!f2&&rc2==URI_SUCCESS){ size_t k=0; while(k<cap2&&d2[k]) ++k; term2=(k<cap2); back=to_text<Ch>(d2,d2+k); }
  g.event(J().str("e","UriToFile").num("w",A::W).raw("uri",jtext(uri)).boo("unix",unix_).num("rc2",rc2).num("f2",f2).boo("term2",term2).raw("back",jtext(back)).str("s",show(uri)).done()); }

VH_DRIVER(file){
  long want=atol(arg_value(argc,argv,"--n",g.thorough?"400000":"30000")); Rng R(g.seed); Guarded a1(1<<16),a2(1<<18),a3(1<<16);
  std::vector<int> alpha={'a','C',':','\\','/','%',' ','#','?','[','.',1,255};
  std::vector<Text> names; int L=g.thorough?5:4;
  // every code point in each position class: drive letter, server name, first segment, later segment, last character
  for(int c=1;c<=255;++c){ names.push_back(Text{c,':','\\','x'}); names.push_back(T("\\\\s")+Text{c}+T("\\share")); names.push_back(T("\\\\")+Text{c}); names.push_back(Text{c}+T("\\b")); names.push_back(T("a\\")+Text{c}+T("\\")); names.push_back(T("C:\\d\\")+Text{c}); names.push_back(T("/")+Text{c}+T("/")+Text{c}); names.push_back(Text{c}); names.push_back(T("\\\\srv\\sh\\")+Text{c}+T("\\")); }
  for(const char*s:{"\\\\server\\share","\\\\server\\share\\","\\\\my server\\share","\\\\srv%41\\share","\\\\server\\my share\\","c:\\dir\\","c:",".\\sub\\","C:\\Documents and Settings\\x","/bin/bash","/","//x","./configure","a b/c%d","file:x","\\\\s","E:"}) names.push_back(T(s));
  // drive-absolute names with a later segment shaped like a drive spec, UNC names with several leading separators, 4+ slashes
  for(const char*s:{"C:\\x\\ :\\y","C:\\a\\b:\\c","D:\\a\\%:","C:\\x\\:","\\\\\\srv\\x","//nas/export","///x","////x","C:\\","C:\\\\x","\\\\srv","\\\\srv\\","a:b\\c","ab:\\c"}) names.push_back(T(s));
  size_t nforced=names.size();
  for(int len=0;len<=L;++len){ std::vector<int> ix(len,0); while(true){ Text t; for(int i=0;i<len;++i) t.push_back(alpha[ix[i]]); names.push_back(t); int i=len-1; while(i>=0&&++ix[i]==(int)alpha.size()){ ix[i]=0; --i; } if(i<0) break; } }
  for(int i=0;i<(g.thorough?40000:3000);++i){ Text t; int kind=R.below(4); if(kind==0) t=T("C:\\"); else if(kind==1) t=T("\\\\srv\\"); else if(kind==2) t=T("/"); int n=R.below(40); for(int j=0;j<n;++j){ int k=R.below(8); t.push_back(k==0? '\\' : k==1? '/' : k<4? 1+R.below(255) : alpha[R.below((int)alpha.size())]); } names.push_back(t); }
  size_t total=names.size()*2; double keep= total>(size_t)want? (double)want/total:1.0; long k=0;
  size_t ni=0; for(auto&t:names){ bool forced= ni++<nforced; for(int ux=0;ux<2;++ux){ ++k; if(!forced && keep<1.0 && (R.next()%1000000)>=keep*1000000) continue; AW(true,k%2,[&]{ file_event<ApiA>(a1,a2,a3,t,ux); },[&]{ file_event<ApiW>(a1,a2,a3,t,ux); }); g.count(jtext(t)+std::to_string(ux),!t.empty()); if(k%4001==0) g.sample(J().str("name",show(t)).boo("unix",ux).done()); } }
  // URI strings on input, incl. the short forms
  for(const char*s:{"file:/x","file:c:/x","file:///C:/x","file://server/share","file:///bin/bash","file://","file:","file:/","file:///","file:////x","file://s","a%20b/c","%41:b","file:///E:/Documents%20and%20Settings","file:%2Fx","FILE:///x","file:///%","file:///%4","file:///a%00b"}) for(int ux=0;ux<2;++ux){ if(g.pair) AW(true,true,[&]{ tofile_event<ApiA>(a1,a3,T(s),ux); },[&]{ tofile_event<ApiW>(a1,a3,T(s),ux); }); else { tofile_event<ApiA>(a1,a3,T(s),ux); tofile_event<ApiW>(a1,a3,T(s),ux); } }
  return 0;
}
