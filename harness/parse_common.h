// parse_common.h — shared by the parse drivers
#pragma once
#include "vh.h"

struct Verdict { bool accept=false; int k=0; int state=0; int lo=-1, hi=-1; };
struct RecTable {
  int n=0,k=0; std::vector<int> cls,reps,acc,next; std::vector<Text> pre,comp;
  bool load(const std::string&path);
  int class_of(int cp) const { return (cp>=0&&cp<=255)? cls[cp] : cls[300]; }
  Verdict judge(const Text&s) const;
};
extern RecTable RT;
extern const char* EP_NAMES[6];

template<class A> struct ParseOut { typename A::Uri uri; int rc=-1; int epos=-1; int fault=0; bool inconsistent=false; const typename A::Ch*first=nullptr; const typename A::Ch*afterLast=nullptr; size_t libc_from=0; };
template<class A> ParseOut<A> do_parse(Guarded&ar,const Text&eff,int ep,RecMM*mm,int range_len=-1);

// generators of accepted / near-accepted URI texts shared by several drivers
std::vector<Text> corpus_uris(Rng&R,bool thorough,size_t want);
