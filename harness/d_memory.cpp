// d_memory.cpp — C15: call sequences on a manager completed by uriCompleteMemoryManager over an instrumented backend.
#include "vh.h"
struct Backend { UriMemoryManager mm; std::map<void*,std::pair<long,size_t>> live; long nextbid=1; std::vector<std::string> log; long calls=0; std::set<long> failAt; bool bad=false;
  static void* bmalloc(UriMemoryManager*m,size_t n){ Backend*b=(Backend*)m->userData; ++b->calls; bool fail=b->failAt.count(b->calls)|| n>(1u<<26);
    long long sz= n>(1u<<30)? -1 : (long long)n; if(fail){ b->log.push_back("[\"m\",0,"+std::to_string(sz)+",0]"); errno=ENOMEM; return nullptr; }
    char*raw=(char*)malloc(n+32); memset(raw,0xC5,16); memset(raw+16,0xA7,n); memset(raw+16+n,0xC5,16); long id=b->nextbid++; b->live[raw+16]={id,n}; b->log.push_back("[\"m\","+std::to_string(id)+","+std::to_string(sz)+",1]"); return raw+16; }
  static void bfree(UriMemoryManager*m,void*p){ Backend*b=(Backend*)m->userData; auto it=b->live.find(p); if(it==b->live.end()){ b->bad=true; b->log.push_back("[\"f\",-1,0,0]"); return; }
    b->log.push_back("[\"f\","+std::to_string(it->second.first)+",0,1]"); char*raw=(char*)p-16; size_t n=it->second.second; for(int i=0;i<16;++i) if((unsigned char)raw[i]!=0xC5||(unsigned char)raw[16+n+i]!=0xC5) b->canary=false; b->live.erase(it); free(raw); }
  bool canary=true;
  bool check_canaries(){ for(auto&kv:live){ char*raw=(char*)kv.first-16; size_t n=kv.second.second; for(int i=0;i<16;++i) if((unsigned char)raw[i]!=0xC5||(unsigned char)raw[16+n+i]!=0xC5) canary=false; } return canary; }
  Backend(){ memset(&mm,0,sizeof mm); mm.malloc=bmalloc; mm.free=bfree; mm.userData=this; } };

static const size_t SMAX=(size_t)-1;
static long long size_class(size_t n){ return n>=SMAX-15? -(long long)(SMAX-n)-1 : (n>(1u<<30)? -100 : (long long)n); }

VH_DRIVER(memory){
  long episodes=atol(arg_value(argc,argv,"--n",g.thorough?"40000":"2500")); Rng R(g.seed);
  static const size_t sizes[]={0,1,2,3,8,24,100,4096,4097,8192,70000,300000,SMAX-8,SMAX-7,SMAX-1,SMAX,SMAX/2+1,
  // fractions of SIZE_MAX: whatever multiple or sum of the request an implementation forms (n + n/2, 2n, n + header) wraps for some of these
  SMAX/3*2+1,SMAX/3*2+2,SMAX/3*2+6,SMAX/3+1,SMAX/4*3+1,SMAX/2,SMAX/2-7,SMAX/5*4+3,SMAX/3*2,SMAX/4+1};   // (large shrinks and growths across page and mmap thresholds too)
  static const size_t fact[]={0,1,2,3,7,16,300,4097,SMAX/2+1,SMAX/4+2,SMAX,(size_t)1<<32,((size_t)1<<32)+1,(size_t)1<<33};
  for(long ep=0;ep<episodes;++ep){
    Backend be; UriMemoryManager mm; memset(&mm,0,sizeof mm); if(uriCompleteMemoryManager(&mm,&be.mm)!=URI_SUCCESS){ g.violation(J().str("prop","C15").str("why","uriCompleteMemoryManager failed on a malloc/free backend").done()); return 0; }
    // backend failure plan: none, one position, or a few
    int plan=R.below(4); if(plan==1) be.failAt.insert(1+R.below(8)); else if(plan==2){ be.failAt.insert(1+R.below(6)); be.failAt.insert(2+R.below(10)); } else if(plan==3) for(int i=0;i<3;++i) be.failAt.insert(1+R.below(12));
    g.event_to(ep,J().str("e","Reset").done());
    struct UB{ void*p; size_t n; long id; unsigned char pat; }; std::vector<UB> live; long nextid=1; int steps=3+R.below(g.thorough?30:14);
    std::string epkey;
    for(int s=0;s<=steps;++s){
      bool closing=(s==steps); if(closing&&live.empty()) break;
      int kind= closing? 4 : R.below(5); if(closing) --s; // drain: free everything at the end
      size_t n=sizes[R.below(27)], a=fact[R.below(14)], b=fact[R.below(14)]; if(R.below(3)){ a=fact[R.below(8)]; b=fact[R.below(8)]; if(R.below(2)) n=sizes[R.below(12)]; }
      int pi= live.empty()? -1 : R.below((int)live.size()+ (closing?0:1)) ; if(pi>=(int)live.size()) pi=-1; if(closing) pi=0;
      UB old= pi>=0? live[pi] : UB{nullptr,0,0,0};
      size_t tot=0; bool ovf=__builtin_mul_overflow(a,b,&tot); size_t req= (kind==1||kind==3)? tot : n; bool hdrovf= req>SMAX-4096;   /* "huge": no header of any plausible size fits on top */
      g.set_case(J().str("driver","memory").num("episode",ep).num("step",s).num("kind",kind).done());
      be.log.clear(); errno=0; void*ret=nullptr; const char*kn="m";
      switch(kind){ case 0: kn="m"; ret=mm.malloc(&mm,n); break; case 1: kn="c"; ret=mm.calloc(&mm,a,b); break; case 2: kn="r"; ret=mm.realloc(&mm,old.p,n); break; case 3: kn="a"; ret=mm.reallocarray(&mm,old.p,a,b); break; default: kn="f"; mm.free(&mm,old.p); }
      int en=errno;
      // observations on content
      bool prefixOK=true, zeroOK=true, fullOK=true, oldIntact=true; long rid=0; bool same=(ret&&ret==old.p);
      size_t newn= (kind==1||kind==3)? tot : n;
      if(kind<=3 && ret){ if(kind==1){ for(size_t i=0;i<newn&&i<(1u<<20);++i) if(((unsigned char*)ret)[i]!=0) zeroOK=false; }
        if((kind==2||kind==3)&&old.p){ size_t m=std::min(old.n,newn); for(size_t i=0;i<m&&i<(1u<<20);++i) if(((unsigned char*)ret)[i]!=old.pat) prefixOK=false; }
        unsigned char pat=(unsigned char)(0x10+nextid%200); if(newn<(1u<<26)) memset(ret,pat,newn); else fullOK=false;   // usable over its full size (ASan/guards catch an overrun)
        if(same){ rid=old.id; live[pi].n=newn; live[pi].pat=pat; } else { rid=nextid++; if((kind==2||kind==3)&&old.p) live.erase(live.begin()+pi); live.push_back({ret,newn,rid,pat}); } }
      else if((kind==2||kind==3)&&old.p){ bool freed = !(kind==3&&ovf) && newn==0; if(freed) live.erase(live.begin()+pi); else { for(size_t i=0;i<old.n&&i<(1u<<20);++i) if(((unsigned char*)old.p)[i]!=old.pat) oldIntact=false; } }
      else if(kind==4&&old.p) live.erase(live.begin()+pi);
      bool canaryOK=be.check_canaries();
      std::string ev=J().str("e","MmCall").str("kind",kn).num("p",old.id).num("n",size_class((kind==1||kind==3)? (ovf?0:tot) : n)).num("a",size_class(a)).num("b",size_class(b)).boo("ovf",(kind==1||kind==3)&&ovf).boo("hdrovf",hdrovf&&!((kind==1||kind==3)&&ovf))
          .num("ret",rid).boo("same",same).num("en",en).raw("backend",jlist(be.log)).boo("prefixOK",prefixOK).boo("zeroOK",zeroOK).boo("fullOK",fullOK).boo("oldIntact",oldIntact).boo("canaryOK",canaryOK&&!be.bad).done();
      g.event_to(ep,ev); epkey+=kn; epkey+=std::to_string(rid); if(closing&&live.empty()) break; }
    g.event_to(ep,J().str("e","MmEnd").num("backend_live",(long long)be.live.size()).done());
    for(auto&kv:be.live) free((char*)kv.first-16);
    g.count(epkey+std::to_string(plan),true); if(ep%501==0) g.sample(J().str("episode",epkey).num("failure_plan",plan).done()); }
  // the library's own manager test on a completed manager and the emulation helpers on a complete one
  { Backend be; UriMemoryManager mm; memset(&mm,0,sizeof mm); uriCompleteMemoryManager(&mm,&be.mm); int rc=uriTestMemoryManager(&mm); if(rc!=URI_SUCCESS||!be.live.empty()||be.bad||!be.canary) g.violation(J().str("prop","C15").str("why","uriTestMemoryManager fails on a completed manager, leaves backend blocks outstanding, or wrote outside a block").num("rc",rc).boo("canary",be.canary).done()); }
  // the two emulation helpers called DIRECTLY on a complete manager (public functions in their own right): overflowing products are refused
  // with ENOMEM before the manager is asked; otherwise calloc = malloc + zero fill, reallocarray = realloc of the product
  { const size_t SM=(size_t)-1; const size_t F[]={0,1,2,3,7,4096,(size_t)1<<31,(size_t)1<<32,((size_t)1<<32)+1,(size_t)1<<62,((size_t)1<<62)+6,(size_t)1<<63,((size_t)1<<63)+4,SM/2,SM/2+1,SM/3,SM-1,SM};
    for(size_t a:F) for(size_t b:F){ RecMM rec; size_t tot=0; bool ovf=__builtin_mul_overflow(a,b,&tot); bool small= !ovf && tot<=((size_t)1<<20);
      errno=0; void*p=uriEmulateCalloc(&rec.mm,a,b); int en=errno; bool zero=true; if(p&&small){ for(size_t i=0;i<tot;++i) if(((unsigned char*)p)[i]){ zero=false; break; } memset(p,0xAB,tot); }
      size_t reqs=rec.log.size();
      errno=0; void*q=uriEmulateReallocarray(&rec.mm,p,b,a); int en2=errno; bool kept=true; if(q&&p&&small){ for(size_t i=0;i<tot;++i) if(((unsigned char*)q)[i]!=0xAB){ kept=false; break; } }
      if(q) rec.mm.free(&rec.mm,q); else if(p && !(!ovf && tot==0)) rec.mm.free(&rec.mm,p);
      g.event_to(0,J().str("e","EmuCall").boo("ovf",ovf).boo("small",small).boo("zeroprod",!ovf&&tot==0).num("ret",p?1:0).num("en",en).boo("zeroOK",zero).num("reqs",(long long)reqs).num("ret2",q?1:0).num("en2",en2).boo("keptOK",kept)
        .num("leak",(long long)rec.outstanding()).boo("bad",rec.bad).num("a",size_class(a)).num("b",size_class(b)).done()); rec.release_all(); g.count("emu"+std::to_string(a)+"x"+std::to_string(b),true); } }
  return 0;
}
