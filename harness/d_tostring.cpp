// d_tostring.cpp — C05: ToString / ToStringCharsRequired for every capacity, guard-page and canary layouts.
#include "vh.h"
#include "parse_common.h"
#include "factory.h"

template<class A> static void tostring_cases(const typename A::Uri&u,const std::string&origin,Guarded&ar,long&n){
  typedef typename A::Ch Ch; int req=-7; int rcreq=A::ToStringCharsRequired(&u,&req); int L= (rcreq==URI_SUCCESS&&req>=0&&req<100000)? req : 0;
  std::string val=Proj<A>::uri(u);
  for(int cap=-1;cap<=L+2;++cap) for(int wantw=0;wantw<2;++wantw){
    g.set_case(J().str("driver","tostring").str("origin",origin).num("cap",cap).num("w",A::W).done());
    // layout 1: the destination ends at a PROT_NONE page
    size_t cells1 = cap>0? (size_t)cap:0; Ch*d1=(Ch*)ar.tail(cells1*sizeof(Ch)); for(size_t i=0;i<cells1;++i) d1[i]=(Ch)0xEE;
    int w1=-9; int rc1=-9; int fault=guarded_call([&]{ rc1=A::ToString(d1,&u,cap,wantw?&w1:nullptr); });
    // layout 2: the destination is followed by 8 canary cells that are logged
    std::vector<Ch> d2(cells1+8,(Ch)0xEE); int w2=-9; int rc2=A::ToString(d2.data(),&u,cap,wantw?&w2:nullptr);
    Text cells; for(Ch c:d2) cells.push_back(cp_of<Ch>(c)&0xFF ? (cp_of<Ch>(c)==(int)(Ch)0xEE? 238 : cp_of<Ch>(c)) : 0);
    bool same = fault || (rc1==rc2 && w1==w2 && std::equal(d1,d1+cells1,d2.begin()));
    g.event(J().str("e","ToString").num("w",A::W).raw("val",val).num("cap",cap).boo("wantw",wantw).num("rc",rc2).num("written",wantw?w2:0).raw("cells",jtext(cells))
        .num("rcreq",rcreq).num("req",req).num("fault",fault).boo("same",same).str("origin",origin).done());
    ++n; }
  g.count(origin+val+std::to_string(A::W),L>0);
}

template<class A> static void tostring_text(const Text&t,int variant,Guarded&ar,long&n){
  auto h=parse_holder<A>(t); if(!h->ok) return;
  if(variant==0) tostring_cases<A>(h->uri,"parsed",ar,n);
  else if(variant==1){ if(A::NormalizeSyntax(&h->uri)==URI_SUCCESS) tostring_cases<A>(h->uri,"normalized",ar,n); }
  else { auto b=parse_holder<A>(T("s://bh:9/x/y?bq")); typename A::Uri d; if(A::AddBaseUri(&d,&h->uri,&b->uri)==URI_SUCCESS){ tostring_cases<A>(d,"resolved",ar,n); } A::FreeUriMembers(&d); } }

VH_DRIVER(tostring){
  if(!RT.load(arg_value(argc,argv,"--table","build/recognizer.tbl"))) return 2;
  long want=atol(arg_value(argc,argv,"--n",g.thorough?"6000":"260")); Rng R(g.seed); Guarded ar(1<<16); long n=0;
  std::vector<Text> texts=corpus_uris(R,g.thorough,(size_t)want);
  // one URI per "what the text ends with" x host kind: every bounds check of the recomposition is the LAST one for some URI here
  // (hosts whose spelling in the source is longer, and shorter, than what is written: the written length is the value's, not the text's)
  for(const char*h:{"h","1.2.3.4","255.255.255.255","[::1]","[1:2:3:4:5:6:7:8]","[v1.a]","","[0000:0000:0000:0000:0000:ffff:192.168.100.200]","[0001:0002:0003:0004:0005:0006:0007:0008]","[00AB:00cd::0.0.0.0]","[::ffff:1.2.3.4]","100.200.209.109","h%41.EX%2e","[vFF.a:B~_-]"}) for(const char*tail:{"",":",":80","/","/a","/a/","/a/b","?","?q","#","#f","/a?q#f"}) for(const char*ui:{"","u@","@"}){
    std::string s=std::string("s://")+ui+h+tail; texts.push_back(T(s.c_str())); }
  for(const char*s:{"s:","s:a","s:/","s:/a","a","/","/a","a/b","?q","#f","s:?","s:#","./a:b","/.//a","s:/.//a"}) texts.push_back(T(s));
  for(const char*s:{"//[::1]","//[1:2:3:4:5:6:7:8]:1","s://u@[::ffff:1.2.3.4]:80/p?q#f","//255.255.255.255","//0.10.100.9:","s://u:p@h:1/a/b?q#f","//[v1.a]","","/","#","?"}) texts.push_back(T(s));
  for(size_t i=0;i<texts.size();++i){ const Text&t=texts[i];
    if(g.pair){ int variant=(int)(i%3); long na=0,nw=0; AW(true,true,[&]{ tostring_text<ApiA>(t,variant,ar,na); },[&]{ tostring_text<ApiW>(t,variant,ar,nw); }); n+=na; continue; }
    { auto h=parse_holder<ApiA>(t); if(h->ok){ tostring_cases<ApiA>(h->uri,"parsed",ar,n);
        if(i%3==0){ if(ApiA::NormalizeSyntax(&h->uri)==URI_SUCCESS) tostring_cases<ApiA>(h->uri,"normalized",ar,n); }
        if(i%3==1){ auto b=parse_holder<ApiA>(T("s://bh:9/x/y?bq")); ApiA::Uri d; if(ApiA::AddBaseUri(&d,&h->uri,&b->uri)==URI_SUCCESS){ tostring_cases<ApiA>(d,"resolved",ar,n); } ApiA::FreeUriMembers(&d); } } }
    { auto h=parse_holder<ApiW>(t); if(h->ok && i%2==0){ tostring_cases<ApiW>(h->uri,"parsed",ar,n);
        if(i%4==0){ if(ApiW::NormalizeSyntax(&h->uri)==URI_SUCCESS) tostring_cases<ApiW>(h->uri,"normalized",ar,n); } } }
    if(n%50==0) g.sample(J().str("uri",show(t)).done());
  }
  return 0;
}
