// d_algebra.cpp — records AddBase / Normalize / MaskReq / C09 / Equals events for TLC (Trace_Algebra): C06..C09, C11.
#include "vh.h"
#include "parse_common.h"
#include "factory.h"

static Text operator+(Text a,const Text&b){ a.insert(a.end(),b.begin(),b.end()); return a; }

// byte snapshot of a URI object and everything it points to (to show read-only arguments are left bit-for-bit unchanged)
template<class A> static std::string snapshot(const typename A::Uri&u){
  std::string s((const char*)&u,sizeof u);
  auto rng=[&](const typename A::Range&r){ if(r.first&&r.afterLast&&r.first<=r.afterLast) s.append((const char*)r.first,(const char*)r.afterLast); s.push_back('|'); };
  rng(u.scheme); rng(u.userInfo); rng(u.hostText); rng(u.portText); rng(u.query); rng(u.fragment); rng(u.hostData.ipFuture);
  if(u.hostData.ip4) s.append((const char*)u.hostData.ip4->data,4); if(u.hostData.ip6) s.append((const char*)u.hostData.ip6->data,16);
  int guard=0; for(auto*p=u.pathHead;p&&guard<100000;p=p->next,++guard){ s.append((const char*)p,sizeof *p); rng(p->text); }
  return s; }

// ---------------------------------------------------------------- universes (same component alphabets as spec/MC_Algebra, and beyond)
static std::vector<Text> seg_seqs(const std::vector<const char*>&alpha,int n){
  std::vector<std::vector<int>> idx; std::vector<Text> out; out.push_back(T("\x01")); // marker for "no segments"
  for(int len=1;len<=n;++len){ std::vector<int> ix(len,0); while(true){ Text t; for(int i=0;i<len;++i){ if(i) t.push_back('/'); Text s=T(alpha[ix[i]]); t.insert(t.end(),s.begin(),s.end()); } out.push_back(t); int i=len-1; while(i>=0&&++ix[i]==(int)alpha.size()){ ix[i]=0; --i; } if(i<0) break; } }
  return out; }
static std::vector<Text> ref_universe(int maxsegs,bool rich){
  std::vector<const char*> sc={"","s:","t:","sx:"}, au={"","//","//h2"}, q={"","?","?q"}, f={"","#f"};
  std::vector<const char*> alpha={"",".","..","a","b:c","%2e","..."};
  if(rich){ au.push_back("//u@H:1"); au.push_back("//[::1]"); alpha.push_back("%2E%2e"); alpha.push_back("A%41"); alpha.push_back(".a"); alpha.push_back("a."); }
  std::vector<Text> out;
  for(auto s:sc) for(auto a:au) for(int ab=0;ab<2;++ab) for(auto&sg:seg_seqs(alpha,maxsegs)) for(auto qq:q) for(auto ff:f){
    bool nosegs = sg.size()==1&&sg[0]==1; if(*a && !ab && !nosegs) continue;
    Text t=T(s)+T(a); if(ab) t.push_back('/'); if(!nosegs) t=t+sg; t=t+T(qq)+T(ff); out.push_back(t); }
  return out; }
static std::vector<Text> base_universe(bool rich){
  std::vector<Text> b; for(const char*s:{"s:","s:/","s:/x","s:/x/y","s:/x/","s:/x//","s:x","s:x/y","s://","s:///x","s://g","s://g/","s://g/x/y","s://g/x//","s://g?z","s://u@g:1/x?z","//g/x","/x"}) b.push_back(T(s));
  if(rich) for(const char*s:{"S://[::1]/a/b/../c","s://1.2.3.4:80/a/./b/","s:/a/b/c/d/e?q#f","s:x/../y","s://g/a%2Fb/c","t:"}) b.push_back(T(s));
  return b; }

// paths in which dot segments cancel completely IN FRONT of one or more empty segments (what is left starts with "/" or "//"), in every
// context: the shapes where a produced path can be re-read as an absolute path or as an authority
static std::vector<Text> ambiguity_family(){
  std::vector<Text> out; const char* ctx[]={"","s:","s:/","/","//h/","s://h/"}; const char* pre[]={"a/..",".","./.","a/b/../..","..","a/../..","%2e","x/.."}; const char* tail[]={"b","b:c","","b/c","1:2","x+y:z","x-y.z:w","x@y:z","x%41:z"};
  for(auto c:ctx) for(auto p:pre) for(int k=1;k<=3;++k) for(auto t:tail){ Text x=T(c)+T(p); for(int i=0;i<k;++i) x.push_back('/'); x.push_back('/'); x=x+T(t); out.push_back(x); }
  return out; }

// ---------------------------------------------------------------- events
template<class A> static void addbase_event(const Text&rt,const Text&bt,int opt,int ep){
  auto r=parse_holder<A>(rt), b=parse_holder<A>(bt); if(!r->ok||!b->ok) return;
  g.set_case(J().str("driver","algebra/addbase").raw("r",jtext(rt)).raw("b",jtext(bt)).num("opt",opt).num("w",A::W).done());
  std::string sr=snapshot<A>(r->uri), sb=snapshot<A>(b->uri); RecMM mm; typename A::Uri d; memset(&d,0xA5,sizeof d); int rc;
  if(ep==0&&opt==0) rc=A::AddBaseUri(&d,&r->uri,&b->uri); else if(ep==2) rc=A::AddBaseUriExMm(&d,&r->uri,&b->uri,(UriResolutionOptions)opt,&mm.mm); else rc=A::AddBaseUriEx(&d,&r->uri,&b->uri,(UriResolutionOptions)opt);
  bool ro = sr==snapshot<A>(r->uri) && sb==snapshot<A>(b->uri);
  J j; j.str("e","AddBase").num("w",A::W).num("ep",ep).raw("r",Proj<A>::uri(r->uri)).raw("b",Proj<A>::uri(b->uri)).num("opt",opt).num("rc",rc).boo("ro",ro).str("rs",show(rt)).str("bs",show(bt));
  if(rc==URI_SUCCESS){ Text t; std::string text= real_tostring<A>(d,t)? jopt_some(t):"[]"; j.raw("t",Proj<A>::uri(d)).raw("text",text); }
  if(ep==2) A::FreeUriMembersMm(&d,&mm.mm); else A::FreeUriMembers(&d);
  if(ep==2 && (mm.outstanding()||mm.bad)){ j.num("leak",(long long)mm.outstanding()); mm.release_all(); }
  g.event(j.done()); g.count(jtext(rt)+"|"+jtext(bt)+std::to_string(opt), !rt.empty()&&rt!=bt); }

template<class A> static void normalize_event(const Text&t,unsigned mask,bool owned,int ep){
  auto h=parse_holder<A>(t); if(!h->ok) return; if(owned && A::MakeOwner(&h->uri)!=URI_SUCCESS) return;
  g.set_case(J().str("driver","algebra/normalize").raw("in",jtext(t)).num("mask",mask).num("owned",owned).num("w",A::W).done());
  std::string before=Proj<A>::uri(h->uri); RecMM mm;
  // mask query before
  { std::string s0=snapshot<A>(h->uri); unsigned m=0xFFFF; int rc=A::NormalizeSyntaxMaskRequiredEx(&h->uri,&m); unsigned m2=A::NormalizeSyntaxMaskRequired(&h->uri);
    g.event(J().str("e","MaskReq").num("w",A::W).raw("val",before).num("rc",rc).num("mask",m).boo("ro",s0==snapshot<A>(h->uri)&&m==m2).str("s",show(t)).done()); }
  int rc; if(ep==0&&mask==63) rc=A::NormalizeSyntax(&h->uri); else if(ep==2){ rc=A::NormalizeSyntaxExMm(&h->uri,mask,&mm.mm); } else rc=A::NormalizeSyntaxEx(&h->uri,mask);
  J j; j.str("e","Normalize").num("w",A::W).num("ep",ep).raw("val",before).num("mask",mask).num("rc",rc).str("s",show(t));
  if(rc==URI_SUCCESS){ j.raw("out",Proj<A>::uri(h->uri)); }
  g.event(j.done());
  if(rc==URI_SUCCESS){ std::string after=Proj<A>::uri(h->uri); std::string s0=snapshot<A>(h->uri); unsigned m=0xFFFF; int rc2=A::NormalizeSyntaxMaskRequiredEx(&h->uri,&m);
    g.event(J().str("e","MaskReq").num("w",A::W).raw("val",after).num("rc",rc2).num("mask",m).boo("ro",s0==snapshot<A>(h->uri)).str("s",show(t)+" (normalized)").done()); }
  if(ep==2){ if(!owned||true){ /* blocks handed out by the recording manager go back through it */ A::FreeUriMembersMm(&h->uri,&mm.mm); if(owned){ /* owned copies made by libc were released through mm: tolerated here, C13 has its own check */ } h->ok=false; mm.release_all(); } }
  g.count(jtext(t)+std::to_string(mask)+(owned?"o":"b"), mask!=0); }

template<class A> static void c09_event(const Text&rt,const Text&bt){
  auto b=parse_holder<A>(bt); auto r1=parse_holder<A>(rt), r2=parse_holder<A>(rt); if(!b->ok||!r1->ok) return;
  g.set_case(J().str("driver","algebra/c09").raw("r",jtext(rt)).raw("b",jtext(bt)).done());
  std::string rproj=Proj<A>::uri(r1->uri), bproj=Proj<A>::uri(b->uri);
  std::string t1="[]",t2="[]";
  { typename A::Uri d; if(A::NormalizeSyntax(&r1->uri)==URI_SUCCESS && A::AddBaseUri(&d,&r1->uri,&b->uri)==URI_SUCCESS){ if(A::NormalizeSyntax(&d)==URI_SUCCESS){ Text t; if(real_tostring<A>(d,t)) t1=jopt_some(t);} A::FreeUriMembers(&d);} }
  { typename A::Uri d; if(A::AddBaseUri(&d,&r2->uri,&b->uri)==URI_SUCCESS){ if(A::NormalizeSyntax(&d)==URI_SUCCESS){ Text t; if(real_tostring<A>(d,t)) t2=jopt_some(t);} A::FreeUriMembers(&d);} }
  g.event(J().str("e","C09").num("w",A::W).raw("r",rproj).raw("b",bproj).raw("t1",t1).raw("t2",t2).str("rs",show(rt)).str("bs",show(bt)).done());
  g.count(jtext(rt)+"|"+jtext(bt),!rt.empty()); }

template<class A> static void equals_event(const typename A::Uri&a,const typename A::Uri&b,const std::string&sa,const std::string&sb){
  std::string s1=snapshot<A>(a), s2=snapshot<A>(b); int res=A::EqualsUri(&a,&b), rev=A::EqualsUri(&b,&a); bool ro = s1==snapshot<A>(a)&&s2==snapshot<A>(b);
  Text ta,tb; std::string ja= real_tostring<A>(a,ta)? jopt_some(ta):"[]", jb= real_tostring<A>(b,tb)? jopt_some(tb):"[]";
  g.event(J().str("e","Equals").num("w",A::W).raw("a",Proj<A>::uri(a)).raw("b",Proj<A>::uri(b)).num("res",res).num("rev",rev).boo("ro",ro).boo("lib",true).raw("ta",ja).raw("tb",jb).str("sa",sa).str("sb",sb).done()); }


// reference creation (C10): real uriRemoveBaseUri, then the real uriAddBaseUri of the result against the base
template<class A> static void removebase_event_h(std::shared_ptr<Holder<A>> s,std::shared_ptr<Holder<A>> b,const Text&st,const Text&bt,int mode,int ep);
template<class A> static void removebase_event(const Text&st,const Text&bt,int mode,int ep){ removebase_event_h<A>(parse_holder<A>(st),parse_holder<A>(bt),st,bt,mode,ep); }
// both operands parsed as explicit ranges of ONE buffer, one text a leading part of the other: their components start at the same addresses and
// differ in length only (a comparison of ranges must compare lengths, not just where they start)
template<class A> static void removebase_shared_event(const Text&whole,size_t cut,bool swap,int mode,int ep){
  auto l=parse_holder<A>(whole); auto p=std::make_shared<Holder<A>>(); p->src=Text(whole.begin(),whole.begin()+cut); p->keep.push_back(l); const typename A::Ch*e=nullptr;
  p->ok= A::ParseSingleUriEx(&p->uri,l->text.data(),l->text.data()+cut,&e)==URI_SUCCESS;
  if(swap) removebase_event_h<A>(p,l,p->src,whole,mode,ep); else removebase_event_h<A>(l,p,whole,p->src,mode,ep); }
template<class A> static void removebase_event_h(std::shared_ptr<Holder<A>> s,std::shared_ptr<Holder<A>> b,const Text&st,const Text&bt,int mode,int ep){
  if(!s->ok||!b->ok) return;
  g.set_case(J().str("driver","algebra/removebase").raw("s",jtext(st)).raw("b",jtext(bt)).num("mode",mode).num("w",A::W).done());
  std::string ss=snapshot<A>(s->uri), sb=snapshot<A>(b->uri); RecMM mm; typename A::Uri d; memset(&d,0xA5,sizeof d); int rc;
  if(ep==1) rc=A::RemoveBaseUriMm(&d,&s->uri,&b->uri,mode?URI_TRUE:URI_FALSE,&mm.mm); else rc=A::RemoveBaseUri(&d,&s->uri,&b->uri,mode?URI_TRUE:URI_FALSE);
  bool ro = ss==snapshot<A>(s->uri) && sb==snapshot<A>(b->uri);
  J j; j.str("e","RemoveBase").num("w",A::W).num("ep",ep).raw("s",Proj<A>::uri(s->uri)).raw("b",Proj<A>::uri(b->uri)).num("mode",mode).num("rc",rc).boo("ro",ro).str("ss",show(st)).str("bs",show(bt));
  if(rc==URI_SUCCESS){ Text t; std::string text= real_tostring<A>(d,t)? jopt_some(t):"[]"; j.raw("ref",Proj<A>::uri(d)).raw("text",text);
    typename A::Uri back; int rc2=A::AddBaseUri(&back,&d,&b->uri); j.num("backrc",rc2); if(rc2==URI_SUCCESS){ j.raw("back",Proj<A>::uri(back)); } A::FreeUriMembers(&back); }
  if(ep==1) A::FreeUriMembersMm(&d,&mm.mm); else A::FreeUriMembers(&d);
  j.num("leak",(long long)(ep==1? mm.outstanding()+(mm.bad?1000:0):0)); mm.release_all();
  g.event(j.done()); g.count(jtext(st)+"|"+jtext(bt)+std::to_string(mode), st!=bt); }

static std::vector<Text> abs_universe(bool rich){
  std::vector<const char*> sc={"s:","t:"}, au={"","//h","//u@h","//h:1","//g","//[::1]","//1.2.3.4"}, qs={"","?q"};
  std::vector<const char*> ph={"","/","/a","/a/b","/a/","/b","/a/c","/a:b","//x","/a//b","/a/b/c","/a/b/","/a//","//","/x/a/b","/a/1:2","/:"};
  std::vector<const char*> pn={"","/","/a","/a/b","/a/","a","a/b","b","a/","a:b/c","/a:b","a//b","a/b/c","/a/c","a/c"};
  if(rich){ for(const char*x:{"//v@h","//h:2","//H","//[::0:1]","//[v1.a]","//1.2.3.5","//","//h:","//@h","//u@h:1"}) au.push_back(x); qs.push_back("?"); qs.push_back("?r");
    for(const char*x:{"/a/../b","/.","/a/..","/../a","/a/./b","/a/b/c/d","/a/b//","///","/a:b/c:d","/c/a/b","/a/b/c/","/%61/b"}) ph.push_back(x);
    for(const char*x:{".","..","../a","a/..","/.//x","a/b/","/a/b/c","a/./b","b:c","/","a/b/c/d","a//"}) pn.push_back(x); }
  std::vector<Text> out;
  for(auto s:sc) for(auto a:au) for(auto p:(*a?ph:pn)) for(auto q:qs){ if(!rich && s[0]=='t' && (a[0] && strcmp(a,"//h"))) continue; out.push_back(T(s)+T(a)+T(p)+T(q)); }
  return out; }

// the "./" guard: after dot removal the first segment of a relative-path reference contains ':' - whatever stands before the colon
// (scheme characters ALPHA DIGIT + - . , other pchars, percent-encodings, nothing at all)
static std::vector<Text> colon_guard_family(){
  std::vector<Text> out; const char* pre[]={"./","x/../","a/b/../../","%2e/","././/../"}; const char* first[]={"a:b","a1:b","a+b:c","a-b:c","a.b:c","A+1-.:x","1a:b","+a:b","-:x",".a:b","a_b:c","a~b:c","a!b:c","a@b:c","a%41:b","%41:b",":b","a:","a::b","a:b:c","svn+ssh:repo"};
  for(auto p:pre) for(auto f:first) for(const char* rest:{"","/r","/r/s"}) out.push_back(T(p)+T(f)+T(rest));
  return out; }

static bool has_pct_dot(const Text&t){ std::string s=show(t); for(auto&c:s) c=(char)tolower(c); return s.find("%2e")!=std::string::npos; }

VH_DRIVER(algebra){
  std::string mode=arg_value(argc,argv,"--mode","addbase"); long want=atol(arg_value(argc,argv,"--n",g.thorough?"400000":"30000")); Rng R(g.seed);
  std::vector<Text> refs=ref_universe(g.thorough?3:2,g.thorough), bases=base_universe(true);
  if(mode=="addbase"){
    size_t total=refs.size()*bases.size()*2; double keep= total>(size_t)want? (double)want/total : 1.0; long k=0;
    for(auto&r:refs) for(auto&b:bases) for(int opt=0;opt<2;++opt){ ++k; if(keep<1.0 && (R.next()%1000000)>=keep*1000000) continue;
      AW(true,(k>>1)%2,[&]{ addbase_event<ApiA>(r,b,opt,(int)(k%3)); },[&]{ addbase_event<ApiW>(r,b,opt,(int)(k%3)); });
      if(k%5003==0) g.sample(J().str("ref",show(r)).str("base",show(b)).num("opt",opt).done()); }
    { long q=0; for(auto&r:ambiguity_family()) for(const char*b:{"s:/x/y","s:x/y","s://g/x/y","s:","s://g","t:a"}) for(int opt=0;opt<2;++opt){ ++q; AW(true,(q>>1)%2,[&]{ addbase_event<ApiA>(r,T(b),opt,(int)(q%3)); },[&]{ addbase_event<ApiW>(r,T(b),opt,(int)(q%3)); }); } }
    // identical-scheme compatibility mode: the two schemes compared in full (equal length and a common prefix, case variants, one a prefix of the other)
    { long q=0; const char* scs[]={"ab","ac","aB","AB","abc","abd","ab+","http","h323","https","httq","a1","a2","a","b","abcdefgh","abcdefgx","abcdxfgh"};
      for(auto sa:scs) for(auto sb:scs) for(const char*rr:{":g",":/g/h","://h/p",":",":?y",":../g#f"}) for(const char*bb:{"://a/b/c/d;p?q",":x/y"}) for(int opt=0;opt<2;++opt){ ++q; Text r=T(sa)+T(rr), b=T(sb)+T(bb);
        for(int pa=0;pa<(g.pair?1:2);++pa) AW(true,pa,[&]{ addbase_event<ApiA>(r,b,opt,(int)(q%3)); },[&]{ addbase_event<ApiW>(r,b,opt,(int)(q%3)); }); } }
    // two-character segments in front of and behind "..": ".a", "a.", "ab" are not dot segments
    { long q=0; const char* two[]={".a","a.","ab","..","."}; for(auto x:two) for(auto y:two) for(auto z:two) for(const char*pre:{"","/","s:","//h/"}) for(const char*b:{"s://g/x/y","s:/x/.a/y"}){ ++q; Text r=T(pre)+T(x)+T("/")+T(y)+T("/")+T(z);
        AW(true,q%2,[&]{ addbase_event<ApiA>(r,T(b),0,(int)(q%3)); },[&]{ addbase_event<ApiW>(r,T(b),0,(int)(q%3)); }); } }
    // longer random paths
    const char* segs[]={"",".","..","a","b","b:c","%2e","1:2"}; long extra= g.thorough? 200000: 4000;
    for(long i=0;i<extra;++i){ Text r; if(R.below(6)==0) r=T("s:"); if(R.below(5)==0) r.push_back('/'); int n=1+R.below(10); for(int j=0;j<n;++j){ if(j) r.push_back('/'); r=r+T(segs[R.below(8)]); } if(R.below(4)==0) r=r+T("?q"); if(R.below(4)==0) r=r+T("#f");
      const Text&b=bases[R.below((int)bases.size())]; AW(true,i%2,[&]{ addbase_event<ApiA>(r,b,(int)(i%2),(int)(i%3)); },[&]{ addbase_event<ApiW>(r,b,g.pair?(int)(i%2):0,(int)(i%3)); }); }
  } else if(mode=="normalize"){
    std::vector<Text> in;
    { std::vector<const char*> sc={"","s:","S:","hTtP:"}, au={"","//","//h","//H%41%7e%3a%3A","//u%3a%41@Ex.COM:1","//[ABCD::1]","//[vF.A:b]","//1.2.3.4","//U:P@h","//u%3A%7e@h%3A%2d"}, qf={"","?","?a%41%7E%3a","#","#F%2f%2F%61","?q#f","?%3A%7E%3a#%3A%61"};
      std::vector<const char*> alpha={"",".","..","a","A","%41","%7e","%7E","%3a","%3A","%2e","%2E","b:c","%2E%2e","a%4","...","..a","%3A%61","%3A%3a%41","%2E%2E%2e","1:2",":","a_b:c","x+y:z","x-y.z:w",".a","a.","ab","%e2%aB","%Ba%fF"};   /* (two-character segments next to "..": the tests for ".." read both characters; escapes whose FIRST digit is a letter) */
      auto paths=seg_seqs(alpha,g.thorough?3:2);
      for(auto s:sc) for(auto a:au) for(int ab=0;ab<2;++ab) for(auto&sg:paths) { bool nosegs=sg.size()==1&&sg[0]==1; if(*a&&!ab&&!nosegs) continue; const char*q=qf[(in.size())%7]; Text t=T(s)+T(a); if(ab) t.push_back('/'); if(!nosegs) t=t+sg; t=t+T(q); in.push_back(t); } }
    { long q=0; for(auto&t:colon_guard_family()) for(unsigned m:{63u,8u}) for(int owned=0;owned<2;++owned){ ++q; AW(true,q%2,[&]{ normalize_event<ApiA>(t,m,owned,(int)(q%3)); },[&]{ normalize_event<ApiW>(t,m,owned,(int)(q%3)); }); } }
    { long q=0; for(auto&t:ambiguity_family()) for(unsigned m:{63u,8u}) for(int owned=0;owned<2;++owned){ ++q; AW(true,q%2,[&]{ normalize_event<ApiA>(t,m,owned,(int)(q%3)); },[&]{ normalize_event<ApiW>(t,m,owned,(int)(q%3)); }); } }
    // never subsampled: (1) every path of up to three segments over dot segments and their two-character look-alikes, in every path
    // context; (2) percent-escapes with a letter as first and / or second digit, in either case, in every component
    { long q=0; std::vector<const char*> da={".","..",".a","a.","ab","a",""}; auto ps=seg_seqs(da,3);
      for(const char*ctx:{"","/","s:","s:/","//h/"}) for(auto&sg:ps){ if(sg.size()==1&&sg[0]==1) continue; Text t=T(ctx)+sg; for(unsigned m:{63u,8u}) for(int owned=0;owned<2;++owned){ ++q;
        AW(true,q%2,[&]{ normalize_event<ApiA>(t,m,owned,(int)(q%3)); },[&]{ normalize_event<ApiW>(t,m,owned,(int)(q%3)); }); } }
      const char* esc[]={"%e2","%E2","%aB","%Ba","%fF","%2e","%2E","%7e","%4a","%4A","%c3%a9"};
      for(auto e:esc) for(const char*form:{"s://u@h/p?q#f","s://U%s@h/","s://h%s/","s://h/%s","s://h/a%sb/c","s://h/?%s","s://h/#%s","%s","s:%s","//%s@%s/%s?%s#%s","s://a%sB/","//%sX%sy","//%sX","//u@x%sY:1","s://H%s/","//[v1.a]%s"}){ char buf[200]; snprintf(buf,sizeof buf,form,e,e,e,e,e);
        for(unsigned m:{63u,2u,4u,8u,16u,32u}) for(int owned=0;owned<2;++owned){ ++q; AW(true,q%2,[&]{ normalize_event<ApiA>(T(buf),m,owned,(int)(q%3)); },[&]{ normalize_event<ApiW>(T(buf),m,owned,(int)(q%3)); }); } } }
    // (3) case folding touches letters only: every character a host, an IPvFuture literal, a scheme or user info may contain, between two
    // upper-case letters, borrowed and owned, normalized twice (the second run works on the library's own copy)
    { long q=0; const char* hostch="abzABZ019-._~!$&'()*+,;="; 
      for(const char*c=hostch;*c;++c) for(const char*form:{"//A%cB/","//[v1.A%cB]/","//[vF.%c]","//U%cV@h/","s://H%c/"}){ char buf[64]; snprintf(buf,sizeof buf,form,*c);
        for(unsigned m:{63u,4u}) for(int owned=0;owned<2;++owned){ ++q; AW(true,q%2,[&]{ normalize_event<ApiA>(T(buf),m,owned,(int)(q%3)); },[&]{ normalize_event<ApiW>(T(buf),m,owned,(int)(q%3)); }); } }
      for(const char*sc:{"A+B-C.D1:","Zz9:","a.B+c-D:x","AZ:","Az09+-.:/"}) for(unsigned m:{63u,1u}) for(int owned=0;owned<2;++owned){ ++q; AW(true,q%2,[&]{ normalize_event<ApiA>(T(sc),m,owned,(int)(q%3)); },[&]{ normalize_event<ApiW>(T(sc),m,owned,(int)(q%3)); }); } }
    static const unsigned masks[]={63,0,1,2,4,8,16,32,8|4,63^8,1|32,0x40|8,0xFFFFFFFFu,0x40,0x100};
    size_t total=in.size()*(g.thorough?64:6); double keep= total>(size_t)want? (double)want/total:1.0; long k=0;
    for(auto&t:in){ int nm= g.thorough?64:6; for(int mi=0;mi<nm;++mi){ ++k; if(keep<1.0 && (R.next()%1000000)>=keep*1000000) continue; unsigned m= g.thorough? (unsigned)mi : masks[(k+mi)%15];
        bool owned=(k%2)==0; int ep=(int)(k%3); AW(true,k%4<2,[&]{ normalize_event<ApiA>(t,m,owned,ep); },[&]{ normalize_event<ApiW>(t,m,owned,ep); });
        if(k%3001==0) g.sample(J().str("uri",show(t)).num("mask",m).boo("owned",owned).done()); } }
    { const char* segs[]={"",".","..","..","a","%41","b:c","...","..a","%2e%2E","1:2"}; long extra= g.thorough? 100000: 2500;
      for(long i=0;i<extra;++i){ Text r; int kind=R.below(8); if(kind==0) r=T("s:"); else if(kind==1) r=T("//h"); if(kind==1||R.below(5)==0) r.push_back('/'); int n=1+R.below(9); for(int j=0;j<n;++j){ if(j) r.push_back('/'); r=r+T(segs[R.below(11)]); }
        unsigned m= (i%3)? 63u : 8u; AW(true,i%2,[&]{ normalize_event<ApiA>(r,m,(i%4)<2,(int)(i%3)); },[&]{ normalize_event<ApiW>(r,m,(i%4)<2,(int)(i%3)); }); } }
  } else if(mode=="c09"){
    // the witness of known finding KF-C09-1 is replayed first on every run (known_findings.json), so the entry is shown to still reproduce
    if(!g.pair){ c09_event<ApiA>(T("abc/.."),T("s://g/x/y")); c09_event<ApiW>(T("abc/.."),T("s://g/x/y")); normalize_event<ApiA>(T("abc/.."),8,false,1); }
    { long q=0; for(auto&r:colon_guard_family()){ if(has_pct_dot(r)) continue; for(const char*b:{"s:/x/y","s://g/x/y"}){ ++q; AW(true,q%2,[&]{ c09_event<ApiA>(r,T(b)); },[&]{ c09_event<ApiW>(r,T(b)); }); } } }
    { long q=0; for(auto&r:ambiguity_family()){ if(has_pct_dot(r)) continue; for(const char*b:{"s:/x/y","s:x/y","s://g/x/y","s:"}){ ++q; AW(true,q%2,[&]{ c09_event<ApiA>(r,T(b)); },[&]{ c09_event<ApiW>(r,T(b)); }); } } }
    size_t total=refs.size()*bases.size(); double keep= total>(size_t)want? (double)want/total:1.0; long k=0;
    for(auto&r:refs){ if(has_pct_dot(r)) continue; for(auto&b:bases){ ++k; if(b.empty()||b[0]!='s') continue; if(keep<1.0 && (R.next()%1000000)>=keep*1000000) continue; AW(true,k%2,[&]{ c09_event<ApiA>(r,b); },[&]{ c09_event<ApiW>(r,b); });
      if(k%4001==0) g.sample(J().str("ref",show(r)).str("base",show(b)).done()); } }
    { const char* segs[]={"",".","..","..","a","b","b:c","...","..a"}; long extra= g.thorough? 100000: 3000;
      for(long i=0;i<extra;++i){ Text r; if(R.below(8)==0) r=T("s:"); if(R.below(6)==0) r.push_back('/'); int n=1+R.below(9); for(int j=0;j<n;++j){ if(j) r.push_back('/'); r=r+T(segs[R.below(9)]); } if(R.below(4)==0) r=r+T("?q");
        const Text&b=bases[R.below((int)bases.size())]; if(b.empty()||b[0]!='s') continue; AW(true,i%2,[&]{ c09_event<ApiA>(r,b); },[&]{ c09_event<ApiW>(r,b); }); } }
  } else if(mode=="removebase"){
    std::vector<Text> U=abs_universe(g.thorough); size_t total=U.size()*U.size()*2; double keep= total>(size_t)want? (double)want/total:1.0; long k=0;
    for(auto&s:U) for(auto&b:U) for(int md=0;md<2;++md){ ++k; if(keep<1.0 && (R.next()%1000000)>=keep*1000000) continue;
      AW(true,k%2,[&]{ removebase_event<ApiA>(s,b,md,(int)(k%3==0)); },[&]{ removebase_event<ApiW>(s,b,md,(int)(k%3==0)); });
      if(k%9001==0) g.sample(J().str("source",show(s)).str("base",show(b)).num("mode",md).done()); }
    // every ordered pair of authorities that differ in exactly one part (user info, host text, host bytes high / low, port, kind), same path shapes
    { const char* auths[]={"//h","//u@h","//v@h","//@h","//h:1","//h:2","//h:","//u@h:1","//g","//H","//1.2.3.4","//1.2.3.5","//9.2.3.4","//[::1]","//[::2]","//[1::1]","//[0:0:0:0:0:0:0:1]","//[::1.2.3.4]","//[::102:304]","//[v1.a]","//[v1.b]","//[v2.a]","//v1.a","//V1.a","//","//1.2.3.4:1","//[::1]:1","//[::1]:2","//u@[::1]","//1.2.3.4:2","//u@1.2.3.4","//[v1.a]:1","//u@[v1.a]"};
      const char* pths[]={"/a/b","/a/c"}; long q=0;
      for(auto a1:auths) for(auto a2:auths) for(int pi=0;pi<2;++pi) for(int md=0;md<2;++md){ ++q; Text s=T("s:")+T(a1)+T(pths[pi]), b=T("s:")+T(a2)+T(pths[1-pi]);
        AW(true,q%2,[&]{ removebase_event<ApiA>(s,b,md,(int)(q%3==0)); },[&]{ removebase_event<ApiW>(s,b,md,(int)(q%3==0)); }); } }
    // bases (and sources) whose paths still contain dot segments, at every position up to four segments deep
    { long q=0; std::vector<const char*> da={"a","b",".",".."}; auto ps=seg_seqs(da,4);
      for(auto&bp:ps){ if(bp.size()==1&&bp[0]==1) continue; bool dotted=false; { std::string sb=show(bp); dotted= sb.find("./")!=std::string::npos || sb.find("/.")!=std::string::npos || sb=="."||sb==".."; } if(!dotted) continue;
        for(const char*sp:{"a/x","a","a/b/c/d","x","a/b/"}) for(int md=0;md<2;++md){ ++q; Text s=T("s://h/")+T(sp), b=T("s://h/")+bp;
          AW(true,q%2,[&]{ removebase_event<ApiA>(s,b,md,(int)(q%3==0)); },[&]{ removebase_event<ApiW>(s,b,md,(int)(q%3==0)); });
          if(q%4==0){ ++q; AW(true,q%2,[&]{ removebase_event<ApiA>(b,s,md,0); },[&]{ removebase_event<ApiW>(b,s,md,0); }); } } } }
    // operands that share one buffer (every cut of a few URIs that leaves a valid absolute URI), both directions, both modes
    { long q=0; for(const char*w:{"s://host/dir/intro.html?query#frag","s://user@hostess:8080/a/bc/def","s://h/a/b/","s:/x/yz","s://1.2.3.44/p","s://[::1]/a"}){ Text t=T(w);
        for(size_t cut=3;cut<t.size();++cut) for(int sw=0;sw<2;++sw) for(int md=0;md<2;++md){ ++q; AW(true,q%2,[&]{ removebase_shared_event<ApiA>(t,cut,sw,md,(int)(q%3==0)); },[&]{ removebase_shared_event<ApiW>(t,cut,sw,md,(int)(q%3==0)); }); } } }
    // the first segment written into the reference contains ':' - whatever stands before the colon (the "./" guard of reference creation)
    { long q=0; const char* first[]={"a:b","a1:b","a+b:c","a-b:c","a.b:c","A+1-.:x","1a:b","+a:b","-:x",".a:b","a_b:c","a~b:c","a!b:c","a@b:c","a%41:b","%41:b",":b","a:","a::b","a:b:c","svn+ssh:repo","a$b:c","a&b:c","a'b:c","a(b):c","a*b:c","a,b:c","a;b:c","a=b:c"};
      for(auto f:first) for(const char*ctx:{"s://h/dir/","s:/dir/","s://h/","s:/"}) for(const char*rest:{"","/r"}) for(const char*bt:{"x","x/y",""}) for(int md=0;md<2;++md){ ++q; Text s=T(ctx)+T(f)+T(rest), b=T(ctx)+T(bt);
        AW(true,q%2,[&]{ removebase_event<ApiA>(s,b,md,(int)(q%3==0)); },[&]{ removebase_event<ApiW>(s,b,md,(int)(q%3==0)); }); } }
    // presence against emptiness of query and fragment on either side (absent, present-but-empty, equal text, different text), for the same
    // path, a sibling, a deeper and a shallower one, with and without authority
    { long q=0; const char* pp[]={"/a/b","/a/b/","/a","","/"}; const char* sq[]={"","?","?q"}; const char* bq[]={"","?","?q","?r"};
      for(const char*au:{"","//h"}) for(auto p1:pp) for(auto p2:pp) for(auto q1:sq) for(auto q2:bq) for(const char*f1:{"","#f"}) for(const char*f2:{"","#"}) for(int md=0;md<2;++md){ ++q;
        Text s=T("s:")+T(au)+T(p1)+T(q1)+T(f1), b=T("s:")+T(au)+T(p2)+T(q2)+T(f2);
        AW(true,q%2,[&]{ removebase_event<ApiA>(s,b,md,(int)(q%3==0)); },[&]{ removebase_event<ApiW>(s,b,md,(int)(q%3==0)); }); } }
    // non-absolute operands: the two dedicated error codes
    for(const char*x:{"//h/a","/a","a","","?q"}) for(const char*y:{"s://h/a","//h/a","a"}) for(int md=0;md<2;++md){ AW(true,true,[&]{ removebase_event<ApiA>(T(x),T(y),md,0); },[&]{ removebase_event<ApiW>(T(x),T(y),md,0); }); AW(true,false,[&]{ removebase_event<ApiA>(T(y),T(x),md,1); },[&]{ removebase_event<ApiW>(T(y),T(x),md,1); }); }
    // longer random paths sharing prefixes of random length
    { const char* segs[]={"a","b","c","","a:b","1:2","x"}; long extra= g.thorough? 150000: 3000; const char* auths[]={"","//h","//h","//u@h:1","//g"};
      for(long i=0;i<extra;++i){ const char*au=auths[R.below(5)]; Text pre; int np=R.below(5); bool abs=*au||R.below(3)>0; for(int j=0;j<np;++j){ pre=pre+T(segs[R.below(7)]); pre.push_back('/'); }
        auto tail=[&](){ Text t; int n=R.below(4); for(int j=0;j<n;++j){ if(j) t.push_back('/'); t=t+T(segs[R.below(7)]); } return t; };
        auto mk=[&](const char*a2){ Text t=T("s:")+T(a2); if(abs) t.push_back('/'); t=t+pre+tail(); if(R.below(4)==0) t=t+T("?q"); return t; };
        Text s=mk(au), b=mk(R.below(6)==0? auths[R.below(5)] : au); AW(true,i%2,[&]{ removebase_event<ApiA>(s,b,(int)(i%4<1),(int)(i%3==0)); },[&]{ removebase_event<ApiW>(s,b,(int)(i%4<1),(int)(i%3==0)); }); } }
  } else if(mode=="equals"){
    // objects that differ in exactly one component (incl. absent vs empty), plus objects produced by resolution / normalization
    std::vector<Text> pool; for(const char*s:{"s://u@h:1/a/b?q#f","t://u@h:1/a/b?q#f","s://v@h:1/a/b?q#f","s://@h:1/a/b?q#f","s://h:1/a/b?q#f","s://u@g:1/a/b?q#f","s://u@h:2/a/b?q#f","s://u@h:/a/b?q#f","s://u@h/a/b?q#f","s://u@h:1/a/c?q#f","s://u@h:1/a/b/?q#f","s://u@h:1/a?q#f","s://u@h:1?q#f","s://u@h:1/?q#f","s://u@h:1/a/b?r#f","s://u@h:1/a/b?#f","s://u@h:1/a/b#f","s://u@h:1/a/b?q#g","s://u@h:1/a/b?q#","s://u@h:1/a/b?q",
        "s:/a","s:a","/a","a","s:","s:/","","/","//h","//h/","//","///","s://","s:///","//1.2.3.4","//1.2.3.5","//[::1]","//[0:0:0:0:0:0:0:1]","//[::2]","//[2001:db8::1]","//[2001:db8::2]","//[::1.2.3.4]","//[::102:304]","//[v1.a]","//[v1.b]","//[V1.a]","//v1.a","//v1.b","//V1.a","//H","//h","s:a/b","s:a//b","s:a/b/","a/b","a//b","./a","a/.","?","#","?#","s:?","s:#",
        "//h:8080/","//h:8443/","//example.com","//example.co","s://h/%41","s://h/A","S://h/a","s://h/a"}) pool.push_back(T(s));
    if(g.thorough) for(auto&r:refs) if(R.below(8)==0) pool.push_back(r);
    std::vector<std::shared_ptr<Holder<ApiA>>> A; std::vector<std::shared_ptr<Holder<ApiW>>> Wd; std::vector<std::string> names;
    for(auto&t:pool){ auto h=parse_holder<ApiA>(t); if(h->ok){ A.push_back(h); names.push_back(show(t)); Wd.push_back(parse_holder<ApiW>(t)); } }
    // produced objects: resolved against a base, normalized, made owner
    size_t n0=A.size(); auto base=parse_holder<ApiA>(T("s://u@h:1/a/b?q#f")); auto baseW=parse_holder<ApiW>(T("s://u@h:1/a/b?q#f"));
    for(size_t i=0;i<n0;++i){ auto d=std::make_shared<Holder<ApiA>>(); if(ApiA::AddBaseUri(&d->uri,&A[i]->uri,&base->uri)==URI_SUCCESS){ d->ok=true; d->keep={A[i],base}; A.push_back(d); names.push_back("resolve("+names[i]+")");
        auto dw=std::make_shared<Holder<ApiW>>(); if(ApiW::AddBaseUri(&dw->uri,&Wd[i]->uri,&baseW->uri)==URI_SUCCESS) dw->ok=true; dw->keep={Wd[i],baseW}; Wd.push_back(dw); } }
    for(size_t i=0;i<n0;++i){ auto h=parse_holder<ApiA>(pool[i]); auto hw=parse_holder<ApiW>(pool[i]); if(h->ok && ApiA::NormalizeSyntax(&h->uri)==URI_SUCCESS && ApiW::NormalizeSyntax(&hw->uri)==URI_SUCCESS){ A.push_back(h); Wd.push_back(hw); names.push_back("normalize("+show(pool[i])+")"); } }
    // the same text parsed as an explicit range in front of DIFFERENT following characters (always compared, never subsampled): what stands
    // behind a component - in particular behind an empty one - is not part of it
    { auto ranged=[&](auto tag,const Text&t,const char*trail){ typedef decltype(tag) AA; auto h=std::make_shared<Holder<AA>>(); h->src=t; h->text=to_str<typename AA::Ch>(t)+to_str<typename AA::Ch>(T(trail)); const typename AA::Ch*e=nullptr;
        h->ok= AA::ParseSingleUriEx(&h->uri,h->text.data(),h->text.data()+t.size(),&e)==URI_SUCCESS; return h; };
      long q=0; for(size_t i=0;i<n0;++i){ const Text&t=pool[i]; auto a1=ranged(ApiA(),t,"#zz"), a2=ranged(ApiA(),t,"0a/:?x"), a3=ranged(ApiA(),t,"%41@["); auto w1=ranged(ApiW(),t,"#zz"), w2=ranged(ApiW(),t,"0a/:?x"), w3=ranged(ApiW(),t,"%41@[");
        if(!(a1->ok&&a2->ok&&a3->ok&&w1->ok&&w2->ok&&w3->ok)) continue; std::string nm=show(t);
        ++q; AW(true,q%2,[&]{ equals_event<ApiA>(a1->uri,a2->uri,"range("+nm+")#zz","range("+nm+")0a/:?x"); },[&]{ equals_event<ApiW>(w1->uri,w2->uri,"range("+nm+")#zz","range("+nm+")0a/:?x"); });
        ++q; AW(true,q%2,[&]{ equals_event<ApiA>(A[i]->uri,a3->uri,nm,"range("+nm+")%41@["); },[&]{ equals_event<ApiW>(Wd[i]->uri,w3->uri,nm,"range("+nm+")%41@["); });
        ++q; AW(true,q%2,[&]{ equals_event<ApiA>(a2->uri,a3->uri,"range("+nm+")0a/:?x","range("+nm+")%41@["); },[&]{ equals_event<ApiW>(w2->uri,w3->uri,"range("+nm+")0a/:?x","range("+nm+")%41@["); }); } }
    long pairs=0; size_t n=A.size(); size_t total=n*n; double keep= total>(size_t)want? (double)want/total:1.0;
    for(size_t i=0;i<n;++i) for(size_t j=0;j<n;++j){ if(i!=j && keep<1.0 && (R.next()%1000000)>=keep*1000000) continue; ++pairs;
      AW(Wd[i]->ok&&Wd[j]->ok,pairs%2,[&]{ equals_event<ApiA>(A[i]->uri,A[j]->uri,names[i],names[j]); },[&]{ if(Wd[i]->ok&&Wd[j]->ok) equals_event<ApiW>(Wd[i]->uri,Wd[j]->uri,names[i],names[j]); });
      g.count(names[i]+"|"+names[j],i!=j); if(pairs%7001==0) g.sample(J().str("a",names[i]).str("b",names[j]).done()); }
    // two objects parsed from the same buffer start with different ends (ranges alias; equal pointers must not mean equal ranges)
    { for(const char*txt:{"http://example.com/docs/page.","//example.com","doc.html?x=1#sec-12","s://u@h:8080/a/b?q#frag","s:abc"}){ std::string bufA(txt); std::wstring bufW(bufA.begin(),bufA.end());
        for(size_t e1=bufA.size(); e1+3>=bufA.size() && e1>0; --e1) for(size_t e2=e1; e2+3>=bufA.size() && e2>0; --e2){
          std::string n1=std::string(txt).substr(0,e1)+" (shared buffer)", n2=std::string(txt).substr(0,e2)+" (shared buffer)";
          auto runA=[&]{ UriUriA a,b; const char*ep; if(uriParseSingleUriExA(&a,bufA.data(),bufA.data()+e1,&ep)!=URI_SUCCESS) return; if(uriParseSingleUriExA(&b,bufA.data(),bufA.data()+e2,&ep)!=URI_SUCCESS){ uriFreeUriMembersA(&a); return; }
            equals_event<ApiA>(a,b,n1,n2); uriFreeUriMembersA(&a); uriFreeUriMembersA(&b); };
          auto runW=[&]{ UriUriW aw,bw; const wchar_t*epw; if(uriParseSingleUriExW(&aw,bufW.data(),bufW.data()+e1,&epw)!=URI_SUCCESS) return; if(uriParseSingleUriExW(&bw,bufW.data(),bufW.data()+e2,&epw)!=URI_SUCCESS){ uriFreeUriMembersW(&aw); return; }
            equals_event<ApiW>(aw,bw,n1,n2); uriFreeUriMembersW(&aw); uriFreeUriMembersW(&bw); };
          if(g.pair) AW(true,true,runA,runW); else { runA(); runW(); } g.count(std::string(txt)+std::to_string(e1*100+e2),e1!=e2); } } }
    // NULL arguments
    { int r1=ApiA::EqualsUri(nullptr,nullptr), r2=ApiA::EqualsUri(&A[0]->uri,nullptr), r3=ApiA::EqualsUri(nullptr,&A[0]->uri); if(!(r1==URI_TRUE&&r2==URI_FALSE&&r3==URI_FALSE)) g.violation(J().str("prop","C11").str("why","NULL arguments: two NULLs must be equal, NULL and non-NULL unequal").done()); }
  }
  return 0;
}
