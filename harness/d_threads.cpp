// d_threads.cpp — C20: concurrent calls on thread-private outputs with shared read-only inputs.
// Shared inputs (texts, parsed URIs with their segment nodes, a query list) live in an arena that is mapped READ-ONLY once it is
// built: a write through a const input is a fault on any schedule.  A table of calls (function, key) is first evaluated by ONE thread
// (TRef events: "what it returns when run alone"), then by N threads at once in seeded random order (TCall events), then the arena
// is compared byte for byte.  Trace_Threads requires every TCall result to be the result of the same call run alone.
// Under the tsan variant the same driver makes every data race a sanitizer abort.  Driver `globals` (variant `shared`) maps the
// writable segment of liburiparser.so read-only and runs the whole table: a write to library globals is a fault.
#include "vh.h"
#include <thread>
#include <atomic>
#include <link.h>

static Text operator+(Text a,const Text&b){ a.insert(a.end(),b.begin(),b.end()); return a; }

// ---------------------------------------------------------------- bump arena behind a UriMemoryManager (set-up phase only, single thread)
struct Arena { char*base=nullptr; size_t cap=0, used=0; UriMemoryManager mm;
  explicit Arena(size_t n){ cap=((n+4095)/4096)*4096; base=(char*)mmap(nullptr,cap,PROT_READ|PROT_WRITE,MAP_PRIVATE|MAP_ANONYMOUS,-1,0); if(base==MAP_FAILED) abort();
    mm.userData=this; mm.malloc=[](UriMemoryManager*m,size_t n)->void*{ return ((Arena*)m->userData)->get(n); };
    mm.calloc=[](UriMemoryManager*m,size_t a,size_t b)->void*{ void*p=((Arena*)m->userData)->get(a*b); if(p) memset(p,0,a*b); return p; };
    mm.realloc=[](UriMemoryManager*m,void*p,size_t n)->void*{ void*q=((Arena*)m->userData)->get(n); if(q&&p) memcpy(q,p,n); return q; };
    mm.reallocarray=[](UriMemoryManager*m,void*p,size_t a,size_t b)->void*{ void*q=((Arena*)m->userData)->get(a*b); if(q&&p) memcpy(q,p,a*b); return q; };
    mm.free=[](UriMemoryManager*,void*){}; }
  void* get(size_t n){ n=(n+15)&~(size_t)15; if(used+n>cap) return nullptr; void*p=base+used; used+=n; return p; }
  template<class Ch> Ch* text(const Text&t,bool nul=true){ Ch*p=(Ch*)get((t.size()+1)*sizeof(Ch)); for(size_t i=0;i<t.size();++i) p[i]=(Ch)t[i]; if(nul) p[t.size()]=0; return p; }
  void readonly(bool ro){ mprotect(base,cap,ro?PROT_READ:(PROT_READ|PROT_WRITE)); }
  std::string bytes() const { return std::string(base,used); } };

// a thread-private manager on top of libc whose k-th request fails once; it really frees what it is asked to free,
// so releasing something that belongs to a shared input is an invalid free (ASan) instead of a silent entry in a log
struct FailMM { UriMemoryManager mm; long count=0, failAt=0;
  explicit FailMM(long k):failAt(k){ mm.userData=this;
    mm.malloc=[](UriMemoryManager*m,size_t n)->void*{ FailMM*f=(FailMM*)m->userData; if(++f->count==f->failAt) return nullptr; return malloc(n?n:1); };
    mm.calloc=[](UriMemoryManager*m,size_t a,size_t b)->void*{ FailMM*f=(FailMM*)m->userData; if(++f->count==f->failAt) return nullptr; return calloc(a?a:1,b?b:1); };
    mm.realloc=[](UriMemoryManager*m,void*p,size_t n)->void*{ FailMM*f=(FailMM*)m->userData; if(++f->count==f->failAt) return nullptr; return realloc(p,n); };
    mm.reallocarray=[](UriMemoryManager*m,void*p,size_t a,size_t b)->void*{ FailMM*f=(FailMM*)m->userData; if(++f->count==f->failAt) return nullptr; return realloc(p,a*b); };
    mm.free=[](UriMemoryManager*,void*p){ free(p); }; } };

// ---------------------------------------------------------------- the shared world and the call table
template<class A> struct World {
  typedef typename A::Ch Ch; typedef typename A::Uri Uri; typedef typename A::QL QL;
  Arena ar; std::vector<Uri*> uris; std::vector<Text> utexts; std::vector<const Ch*> uptrs; std::vector<const Ch*> strs; std::vector<Text> stexts; QL* ql=nullptr;
  struct Call { std::string fn, key; std::function<std::string()> run; };
  std::vector<Call> calls;
  World():ar(4<<20){
    for(const char*s:{"s://u@h:1/a/b/c?q#f","s://h/a/b/","s://h/a/../b/./c","s:/a/b","s:a/b","t://[::1]/x","s://1.2.3.4/","//h/p","../x/./y","?q","#f","","./a:b","s://H%41/%7e%3a?%41","a/../..//b","s://h/a/b/c/d/e/f/g","s://[v7.Fe:Ed]/p","//u@[vF.x]:1","s://[2001:DB8::ABCD]/A","S://U@Ex.COM:80/%41"}){
      Text t=T(s); Ch*p=ar.text<Ch>(t); Uri*u=(Uri*)ar.get(sizeof(Uri)); const Ch*e; if(A::ParseSingleUriExMm(u,p,p+t.size(),&e,&ar.mm)==URI_SUCCESS){ uris.push_back(u); utexts.push_back(t); uptrs.push_back(p); } }
    for(const char*s:{"a b+c%41%0D%0A\r\nz","k1=v1&k2=v+2&&=&k3&%3D=%26","/bin/bash","C:\\dir\\file name","\\\\srv\\share\\x","file:///C:/x%20y","file:///etc/passwd","%2","s://[::1","hello world \xe4\xf6"}){ Text t=T(s); strs.push_back(ar.text<Ch>(t)); stexts.push_back(t); }
    { const Ch*q=strs[1]; int cnt=0; A::DissectQueryMallocExMm(&ql,&cnt,q,q+stexts[1].size(),URI_TRUE,URI_BR_DONT_TOUCH,&ar.mm); }
    build(); ar.readonly(true); }
  static std::string res_uri(int rc,Uri&u){ J j; j.num("rc",rc); if(rc==URI_SUCCESS){ Text t; j.raw("val",Proj<A>::uri(u)).raw("text", real_tostring<A>(u,t)? jopt_some(t):"[]"); } return j.done(); }
  void add(const std::string&fn,const std::string&key,std::function<std::string()> f){ calls.push_back({fn,fn+":"+key,f}); }
  void build(){
    for(size_t i=0;i<uris.size();++i) for(size_t k=0;k<uris.size();++k){ Uri*r=uris[i]; Uri*b=uris[k]; std::string key=show(utexts[i])+" | "+show(utexts[k]);
      for(int opt=0;opt<2;++opt) add("AddBase",key+" opt"+std::to_string(opt),[=]{ Uri d; int rc=A::AddBaseUriEx(&d,r,b,(UriResolutionOptions)opt); std::string s=res_uri(rc,d); A::FreeUriMembers(&d); return s; });
      if(i<8&&k<8) for(int md=0;md<2;++md) add("RemoveBase",key+" mode"+std::to_string(md),[=]{ Uri d; int rc=A::RemoveBaseUri(&d,r,b,md?URI_TRUE:URI_FALSE); std::string s=res_uri(rc,d); A::FreeUriMembers(&d); return s; });
      add("Equals",key,[=]{ return J().num("res",A::EqualsUri(r,b)).done(); });
      // the same calls with a private manager whose k-th request fails: the clean-up of a failed call must stay inside the thread's own objects
      if((i==5||i==6||i==0)&&(k==5||k==6||k==0||k==1)) for(long f=1;f<=5;++f){
        add("AddBaseFail",key+" k"+std::to_string(f),[=]{ FailMM fm(f); Uri d; int rc=A::AddBaseUriExMm(&d,r,b,URI_RESOLVE_STRICTLY,&fm.mm); std::string s=res_uri(rc,d); A::FreeUriMembersMm(&d,&fm.mm); return s; });
        add("RemoveBaseFail",key+" k"+std::to_string(f),[=]{ FailMM fm(f); Uri d; int rc=A::RemoveBaseUriMm(&d,r,b,URI_FALSE,&fm.mm); std::string s=res_uri(rc,d); A::FreeUriMembersMm(&d,&fm.mm); return s; }); } }
    for(size_t i=0;i<uris.size();++i){ Uri*u=uris[i]; std::string key=show(utexts[i]); const Ch*txt=nullptr; Text tt=utexts[i];
      add("ToString",key,[=]{ int n=-1; int r1=A::ToStringCharsRequired(u,&n); Text t; bool ok=real_tostring<A>(*u,t); return J().num("rcreq",r1).num("req",n).boo("ok",ok).raw("text",jtext(t)).done(); });
      add("MaskReq",key,[=]{ unsigned m=0xFFFF; int rc=A::NormalizeSyntaxMaskRequiredEx(u,&m); return J().num("rc",rc).num("mask",m).num("mask2",A::NormalizeSyntaxMaskRequired(u)).done(); });
      for(unsigned m:{63u,8u,5u}) add("ParseNormalize",key+" mask"+std::to_string(m),[=]{ std::basic_string<Ch> s=to_str<Ch>(tt); Uri v; const Ch*e; int rc=A::ParseSingleUriEx(&v,s.data(),s.data()+s.size(),&e); if(rc) return J().num("rc",rc).done(); rc=A::NormalizeSyntaxEx(&v,m); std::string r=res_uri(rc,v); A::FreeUriMembers(&v); return r; });
      add("ParseMakeOwner",key,[=]{ std::basic_string<Ch> s=to_str<Ch>(tt); Uri v; const Ch*e; int rc=A::ParseSingleUriEx(&v,s.data(),s.data()+s.size(),&e); if(rc) return J().num("rc",rc).done(); rc=A::MakeOwner(&v); std::fill(s.begin(),s.end(),(Ch)'#'); std::string r=res_uri(rc,v); A::FreeUriMembers(&v); return r; });
      for(long f=1;f<=6;++f) add("ParseNormalizeFail",key+" k"+std::to_string(f),[=]{ FailMM fm(f); std::basic_string<Ch> s=to_str<Ch>(tt); Uri v; const Ch*e; int rc=A::ParseSingleUriExMm(&v,s.data(),s.data()+s.size(),&e,&fm.mm); if(rc) return J().num("rc",rc).done(); rc=A::NormalizeSyntaxExMm(&v,63,&fm.mm); std::string r=res_uri(rc,v); A::FreeUriMembersMm(&v,&fm.mm); return r; });
      // a private URI that BORROWS shared text (parsed from the shared buffer itself; resolved / relativized against shared operands) is then
      // normalized: the library must switch to its own copies before it changes a character - the shared text is read-only here
      { const Ch*sp=uptrs[i]; size_t sn=tt.size();
        for(unsigned m:{63u,4u,1u,8u,48u}) add("BorrowNormalize",key+" mask"+std::to_string(m),[=]{ Uri v; const Ch*e; int rc=A::ParseSingleUriEx(&v,sp,sp+sn,&e); if(rc) return J().num("rc",rc).done(); rc=A::NormalizeSyntaxEx(&v,m); std::string r=res_uri(rc,v); A::FreeUriMembers(&v); return r; });
        add("BorrowMakeOwner",key,[=]{ Uri v; const Ch*e; int rc=A::ParseSingleUriEx(&v,sp,sp+sn,&e); if(rc) return J().num("rc",rc).done(); rc=A::MakeOwner(&v); std::string r=res_uri(rc,v); A::FreeUriMembers(&v); return r; }); }
      for(size_t k=0;k<uris.size();k+=3){ Uri*b=uris[k]; std::string key2=key+" | "+show(utexts[k]);
        add("AddBaseNormalize",key2,[=]{ Uri d; int rc=A::AddBaseUri(&d,u,b); if(rc){ A::FreeUriMembers(&d); return J().num("rc",rc).done(); } rc=A::NormalizeSyntaxEx(&d,63); std::string r=res_uri(rc,d); A::FreeUriMembers(&d); return r; });
        add("RemoveBaseNormalize",key2,[=]{ Uri d; int rc=A::RemoveBaseUri(&d,u,b,URI_FALSE); if(rc){ A::FreeUriMembers(&d); return J().num("rc",rc).done(); } rc=A::NormalizeSyntaxEx(&d,63); std::string r=res_uri(rc,d); A::FreeUriMembers(&d); return r; }); }
      (void)txt; }
    for(size_t i=0;i<strs.size();++i){ const Ch*p=strs[i]; size_t n=stexts[i].size(); std::string key=show(stexts[i]);
      add("ParseShared",key,[=]{ Uri v; const Ch*e=nullptr; int rc=A::ParseSingleUriEx(&v,p,p+n,&e); J j; j.num("rc",rc); if(rc==URI_SUCCESS) j.raw("val",Proj<A>::uri(v)); else j.num("epos",e?(long long)(e-p):-1); A::FreeUriMembers(&v); return j.done(); });
      for(int f=0;f<4;++f) add("Escape",key+" f"+std::to_string(f),[=]{ std::vector<Ch> out(6*n+1); Ch*e=A::EscapeEx(p,p+n,out.data(),f&1,f>>1); return J().raw("out",jtext<Ch>(out.data(),e)).done(); });
      for(int f=0;f<2;++f) add("Unescape",key+" f"+std::to_string(f),[=]{ std::vector<Ch> b(p,p+n+1); const Ch*e=A::UnescapeInPlaceEx(b.data(),f,f?URI_BR_TO_LF:URI_BR_DONT_TOUCH); return J().raw("out",jtext<Ch>(b.data(),e)).done(); });
      add("Dissect",key,[=]{ QL*l=nullptr; int c=-1; int rc=A::DissectQueryMallocEx(&l,&c,p,p+n,URI_TRUE,URI_BR_TO_LF); J j; j.num("rc",rc).num("count",c); std::vector<std::string> it; for(QL*q=l;rc==URI_SUCCESS&&q;q=q->next){ Text k; for(const Ch*x=q->key;*x;++x) k.push_back(cp_of<Ch>(*x)); it.push_back(jtext(k)); } j.raw("keys",jlist(it)); if(rc==URI_SUCCESS) A::FreeQueryList(l); return j.done(); });
      for(int ux=0;ux<2;++ux){ add("FileToUri",key+(ux?" unix":" win"),[=]{ std::vector<Ch> out(8+3*n+1); int rc= ux? A::UnixFilenameToUriString(p,out.data()) : A::WindowsFilenameToUriString(p,out.data()); J j; j.num("rc",rc); if(!rc){ const Ch*e=out.data(); while(*e) ++e; j.raw("out",jtext<Ch>(out.data(),e)); } return j.done(); });
        add("UriToFile",key+(ux?" unix":" win"),[=]{ std::vector<Ch> out(n+1); int rc= ux? A::UriStringToUnixFilename(p,out.data()) : A::UriStringToWindowsFilename(p,out.data()); J j; j.num("rc",rc); if(!rc){ const Ch*e=out.data(); while(*e) ++e; j.raw("out",jtext<Ch>(out.data(),e)); } return j.done(); }); } }
    { QL*l=ql; for(int f=0;f<4;++f){ add("Compose","list f"+std::to_string(f),[=]{ int req=-1; int r1=A::ComposeQueryCharsRequiredEx(l,&req,f&1,f>>1); std::vector<Ch> out((size_t)(req>0?req:0)+2); int w=-1; int r2=A::ComposeQueryEx(out.data(),l,req+1,&w,f&1,f>>1); return J().num("r1",r1).num("req",req).num("r2",r2).num("w",w).raw("out", r2? "[]": jtext<Ch>(out.data(),out.data()+(w>0?w-1:0))).done(); });
        add("ComposeMalloc","list f"+std::to_string(f),[=]{ Ch*s=nullptr; int rc=A::ComposeQueryMallocEx(&s,l,f&1,f>>1); J j; j.num("rc",rc); if(!rc){ const Ch*e=s; while(*e) ++e; j.raw("out",jtext<Ch>(s,e)); free(s); } return j.done(); }); } }
    add("MemoryManager","complete+test",[=]{ UriMemoryManager be; memset(&be,0,sizeof be); be.malloc=[](UriMemoryManager*,size_t n){ return malloc(n); }; be.free=[](UriMemoryManager*,void*p){ free(p); }; UriMemoryManager m; int r1=uriCompleteMemoryManager(&m,&be); int r2=uriTestMemoryManager(&m); return J().num("r1",r1).num("r2",r2).done(); });
  }
};

template<class A> static void run_threads(int nthreads,long per,uint64_t seed,bool log){
  World<A> W; size_t nc=W.calls.size(); std::string before=W.ar.bytes();
  std::vector<std::string> ref(nc); g.set_case(J().str("driver","threads").str("phase","single-threaded reference").num("w",A::W).done());
  for(size_t i=0;i<nc;++i) ref[i]=W.calls[i].run();
  g.set_case(J().str("driver","threads").str("phase","concurrent calls").num("w",A::W).num("threads",nthreads).done());
  struct Rec { size_t call; std::string res; }; std::vector<std::vector<Rec>> recs(nthreads); std::atomic<int> go(0);
  std::vector<std::thread> th; for(int t=0;t<nthreads;++t) th.emplace_back([&,t]{ Rng R(seed*1000+t); go.fetch_add(1); while(go.load()<nthreads){} for(long k=0;k<per;++k){ size_t c=(size_t)R.below((int)nc); recs[t].push_back({c,W.calls[c].run()}); } });
  for(auto&x:th) x.join();
  g.set_case(J().str("driver","threads").str("phase","after").done());
  bool same= before==W.ar.bytes(); std::vector<std::string> again(nc); for(size_t i=0;i<nc;++i) again[i]=W.calls[i].run();
  if(!log) { for(int t=0;t<nthreads;++t) for(auto&r:recs[t]){ g.count(W.calls[r.call].key+std::to_string(A::W),true); if(r.res!=ref[r.call]) g.violation(J().str("prop","C20").str("why","a concurrent call returned something else than the same call run alone").str("key",W.calls[r.call].key).num("w",A::W).done()); } return; }
  // one TCall event per concurrent call, carrying the result of the same call run alone (before the threads started)
  for(int t=0;t<nthreads;++t){ long seq=0; for(auto&r:recs[t]){ g.event_to((size_t)t,J().str("e","TCall").num("tid",t).num("seq",seq++).num("w",A::W).str("fn",W.calls[r.call].fn).str("key",W.calls[r.call].key).raw("res",r.res).raw("alone",ref[r.call]).done()); g.count(W.calls[r.call].key+std::to_string(A::W),true); } }
  for(size_t i=0;i<nc;++i) g.event_to(i,J().str("e","TCall").num("tid",-1).num("seq",(long long)i).num("w",A::W).str("fn",W.calls[i].fn).str("key",W.calls[i].key).raw("res",again[i]).raw("alone",ref[i]).done());
  g.event_to(0,J().str("e","TShared").boo("same",same).num("w",A::W).done());
  g.sample(J().num("threads",nthreads).num("calls_per_thread",per).num("distinct_calls",(long long)nc).num("w",A::W).done()); }

VH_DRIVER(threads){
  int nt=atoi(arg_value(argc,argv,"--threads","12")); long per=atol(arg_value(argc,argv,"--n",g.thorough?"40000":"2500")); bool log=atoi(arg_value(argc,argv,"--log","1"))!=0;
  int rounds=atoi(arg_value(argc,argv,"--rounds",g.thorough?"6":"2"));
  for(int r=0;r<rounds;++r){ run_threads<ApiA>(nt,per,g.seed*10+r,log); run_threads<ApiW>(nt,per,g.seed*10+r+5,log); }
  return 0;
}

// ---------------------------------------------------------------- library globals held read-only (variant `shared`)
struct SegInfo { uintptr_t lo=0, hi=0; bool found=false; std::string name; };
static int phdr_cb(struct dl_phdr_info*info,size_t,void*data){ SegInfo*s=(SegInfo*)data; if(!info->dlpi_name||!strstr(info->dlpi_name,"liburiparser")) return 0; s->name=info->dlpi_name;
  for(int i=0;i<info->dlpi_phnum;++i){ const ElfW(Phdr)&p=info->dlpi_phdr[i]; if(p.p_type==PT_LOAD&&(p.p_flags&PF_W)){ uintptr_t a=info->dlpi_addr+p.p_vaddr, b=a+p.p_memsz; a&=~(uintptr_t)4095; b=(b+4095)&~(uintptr_t)4095; if(!s->found){ s->lo=a; s->hi=b; s->found=true; } else { s->lo=std::min(s->lo,a); s->hi=std::max(s->hi,b); } } }
  return 0; }

template<class A> static long run_table_guarded(){ World<A> W; long bad=0;
  for(auto&c:W.calls){ g.set_case(J().str("driver","globals").str("key",c.key).num("w",A::W).done()); std::string r; int sig=guarded_call([&]{ r=c.run(); });
    g.count(c.key+std::to_string(A::W),true); if(sig){ ++bad; g.violation(J().str("prop","C20").str("why","a public call wrote to the library's own data segment (mapped read-only for the run)").str("key",c.key).num("w",A::W).num("signal",sig).done()); } }
  return bad; }

VH_DRIVER(globals){
  SegInfo s; dl_iterate_phdr(phdr_cb,&s); if(!s.found){ fprintf(stderr,"globals: liburiparser.so is not loaded as a shared object (use the `shared` variant)\n"); return 2; }
  if(mprotect((void*)s.lo,s.hi-s.lo,PROT_READ)!=0){ perror("mprotect"); return 2; }
  long bad=run_table_guarded<ApiA>()+run_table_guarded<ApiW>();
  mprotect((void*)s.lo,s.hi-s.lo,PROT_READ|PROT_WRITE);   // the C runtime's own destructor writes here at exit
  g.sample(J().str("library",s.name).num("segment_bytes",(long long)(s.hi-s.lo)).num("faults",bad).done());
  return 0;
}
