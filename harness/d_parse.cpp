// d_parse.cpp — parse drivers.
//   parse_walk : C01 at native speed. The verdict for every string comes from the state graph
//                that TLC explored and emitted (build/recognizer.tbl); this file adds no grammar.
//   parse_log  : records Parse events (projection, spans, allocator log, recomposition) for
//                validation by TLC against Trace_Parse (C01..C04).
#include "vh.h"
#include "parse_common.h"

RecTable RT;

bool RecTable::load(const std::string&path){
  FILE*f=fopen(path.c_str(),"r"); if(!f) return false;
  if(fscanf(f,"%d %d",&n,&k)!=2) return false;
  cls.resize(301); for(int i=0;i<301;++i) if(fscanf(f,"%d",&cls[i])!=1) return false;
  reps.resize(k); for(int i=0;i<k;++i) if(fscanf(f,"%d",&reps[i])!=1) return false;
  acc.resize(n); next.assign((size_t)n*k,-1);
  for(int s=0;s<n;++s){ if(fscanf(f,"%d",&acc[s])!=1) return false; for(int c=0;c<k;++c) if(fscanf(f,"%d",&next[(size_t)s*k+c])!=1) return false; }
  pre.resize(n); comp.resize(n);
  for(int s=0;s<n;++s){ int m; if(fscanf(f,"%d",&m)!=1) return false; pre[s].resize(m); for(int i=0;i<m;++i) if(fscanf(f,"%d",&pre[s][i])!=1) return false; }
  for(int s=0;s<n;++s){ int m; if(fscanf(f,"%d",&m)!=1) return false; comp[s].resize(m); for(int i=0;i<m;++i) if(fscanf(f,"%d",&comp[s][i])!=1) return false; }
  fclose(f); return true; }

Verdict RecTable::judge(const Text&s) const {
  Verdict v; int st=0; size_t i=0; for(;i<s.size();++i){ int t=next[(size_t)st*k+class_of(s[i])]; if(t<0) break; st=t; }
  v.k=(int)i; v.state=st; v.accept = (i==s.size()) && acc[st];
  // open bracket in the viable prefix: last '[' with no later ']'
  int ob=-1; for(int j=v.k-1;j>=0;--j){ if(s[j]==']') break; if(s[j]=='['){ ob=j; break; } }
  if(v.accept){ v.lo=v.hi=-1; }
  else if(ob<0){ v.lo=v.hi=v.k; }
  else { int rb=-1; for(size_t j=ob;j<s.size();++j) if(s[j]==']'){ rb=(int)j; break; } v.lo=ob; v.hi = rb<0 ? (int)s.size() : rb; }
  return v; }

// ---------------------------------------------------------------- one parse through one entry point
const char* EP_NAMES[6]={"state-ex","state-z","single-z","single-ex","single-exnull","single-exmm"};

template<class A> ParseOut<A> do_parse(Guarded&ar,const Text&eff,int ep,RecMM*mm,int range_len){
  typedef typename A::Ch Ch; ParseOut<A> o; memset(&o.uri,0xA5,sizeof o.uri);
  bool z = (ep==1||ep==2||ep==4);
  Ch* p=ar.put<Ch>(eff,z); o.first=p; o.afterLast=p+(range_len<0?eff.size():(size_t)range_len);
  const Ch* epos=(const Ch*)(uintptr_t)0x1; int rc=-1;
  size_t libc0=g_libc_log.size();
  o.fault=guarded_call([&]{ LibScope ls;
    switch(ep){
      case 0:{ typename A::State st; st.uri=&o.uri; st.errorCode=-7; st.errorPos=(const Ch*)(uintptr_t)0x1; rc=A::ParseUriEx(&st,o.first,o.afterLast); epos=st.errorPos; if(rc!=st.errorCode && !(rc==URI_ERROR_NULL)) o.inconsistent=true; break; }
      case 1:{ typename A::State st; st.uri=&o.uri; st.errorCode=-7; st.errorPos=(const Ch*)(uintptr_t)0x1; rc=A::ParseUri(&st,o.first); epos=st.errorPos; if(rc!=st.errorCode) o.inconsistent=true; break; }
      case 2: rc=A::ParseSingleUri(&o.uri,o.first,&epos); break;
      case 3: rc=A::ParseSingleUriEx(&o.uri,o.first,o.afterLast,&epos); break;
      case 4: rc=A::ParseSingleUriEx(&o.uri,o.first,nullptr,&epos); break;
      case 5: rc=A::ParseSingleUriExMm(&o.uri,o.first,o.afterLast,&epos,&mm->mm); break;
    } });
  o.rc=rc; o.libc_from=libc0;
  if(rc==URI_SUCCESS) o.epos=-1;
  else if(epos==nullptr) o.epos=-3;                          // NULL error position
  else if(epos==(const Ch*)(uintptr_t)0x1) o.epos=-4;         // never written
  else if(epos<o.first||epos>o.afterLast) o.epos=-2;          // outside the input
  else o.epos=(int)(epos-o.first);
  return o; }
template ParseOut<ApiA> do_parse<ApiA>(Guarded&,const Text&,int,RecMM*,int);
template ParseOut<ApiW> do_parse<ApiW>(Guarded&,const Text&,int,RecMM*,int);

static bool fits_char(const Text&s){ for(int c:s) if(c<0||c>255) return false; return true; }
static Text effective(const Text&s,int ep){ if(ep==1||ep==2||ep==4){ Text t; for(int c:s){ if(c==0) break; t.push_back(c);} return t; } return s; }

// ---------------------------------------------------------------- C01 native comparison
struct WalkState { Guarded ar; RecMM mm; uint64_t part=0,nparts=1; long long checked=0; Rng rng{1}; WalkState():ar(1<<16){} };

template<class A> static void check_one(WalkState&W,const Text&s,int ep){
  Text eff=effective(s,ep); Verdict v=RT.judge(eff);
  W.mm.reset();
  ParseOut<A> o=do_parse<A>(W.ar,eff,ep,&W.mm);
  bool bad=false; const char*why="";
  if(o.fault){ bad=true; why="fault"; }
  else if(v.accept){ if(o.rc!=URI_SUCCESS){ bad=true; why="valid URI reference rejected"; } }
  else { if(o.rc==URI_SUCCESS){ bad=true; why="invalid text accepted"; }
         else if(o.rc!=URI_ERROR_SYNTAX){ bad=true; why="wrong error code"; }
         else if(o.epos<v.lo||o.epos>v.hi){ bad=true; why="error position"; } }
  if(o.inconsistent){ bad=true; why="state errorCode differs from return value"; }
  if(!o.fault){ LibScope ls; if(ep==5) A::FreeUriMembersMm(&o.uri,&W.mm.mm); else A::FreeUriMembers(&o.uri); }
  if(ep==5 && (W.mm.outstanding()||W.mm.bad) && !o.fault){ bad=true; why="custom manager: blocks outstanding after free"; W.mm.release_all(); W.mm.bad=false; }
  if(bad){ g.violation(J().str("prop",o.fault?"C03":(strstr(why,"custom manager")?"C13":"C01")).str("why",why).raw("in",jtext(eff)).str("shown",show(eff)).str("ep",EP_NAMES[ep]).num("w",A::W)
        .boo("exp_accept",v.accept).num("rc",o.rc).num("epos",o.epos).num("lo",v.lo).num("hi",v.hi).num("fault",o.fault).done()); }
}
static void check_all(WalkState&W,const Text&s){
  if(W.nparts>1){ uint64_t h=fnv(jtext(s)); if(h%W.nparts!=W.part) return; }
  g.set_case(J().str("driver","parse_walk").raw("in",jtext(s)).done());
  Verdict v=RT.judge(s);
  g.count(jtext(s), v.k>=1);
  bool narrow=fits_char(s);
  for(int ep=0;ep<6;++ep){ if(narrow) check_one<ApiA>(W,s,ep); check_one<ApiW>(W,s,ep); }
  if(g.samples.size()<6 && (W.checked%100003)==7) g.sample(J().raw("in",jtext(s)).str("shown",show(s)).boo("accept",v.accept).num("viable_prefix",v.k).done());
  ++W.checked;
}

static void cat(Text&a,const Text&b){ a.insert(a.end(),b.begin(),b.end()); }

VH_DRIVER(parse_walk){
  if(!RT.load(arg_value(argc,argv,"--table","build/recognizer.tbl"))){ fprintf(stderr,"cannot load recognizer table\n"); return 2; }
  WalkState W; W.part=strtoull(arg_value(argc,argv,"--part","0"),nullptr,10); W.nparts=strtoull(arg_value(argc,argv,"--nparts","1"),nullptr,10); W.rng=Rng(g.seed*1000+W.part);
  int L=atoi(arg_value(argc,argv,"--L",g.thorough?"5":"4")); int Lb=atoi(arg_value(argc,argv,"--Lb",g.thorough?"3":"2"));
  long walks=atol(arg_value(argc,argv,"--walks",g.thorough?"5000000":"200000"));
  const char* only=arg_value(argc,argv,"--only","");
  // (i) P . Sigma . W : every state's shortest prefix x every code point x characterising suffixes
  if(!*only||!strcmp(only,"psw")){
    std::vector<Text> probes={T(""),T("/"),T("?"),T("#"),T(":"),T("@"),T("]"),T("%"),T("%41"),T("a"),T("1"),T("."),T("::"),T(".1.1.1]"),T(":1]"),T("//")};
    std::vector<int> sigma; for(int c=0;c<=255;++c) sigma.push_back(c); for(int c:{256+'a',256+'/',256+':',256+'[',256+'%',256+'1',0x10FFFF,-1,-128}) sigma.push_back(c);
    for(int st=0;st<RT.n;++st) for(int c:sigma){
      Text base=RT.pre[st]; base.push_back(c);
      // completion of the state reached (if any) as an extra probe
      Verdict vb=RT.judge(base);
      for(size_t pi=0;pi<=probes.size();++pi){ Text s=base; if(pi<probes.size()) cat(s,probes[pi]); else { if(vb.k!=(int)base.size()) continue; cat(s,RT.comp[vb.state]); } check_all(W,s); } } }
  // (ii) all strings of length <= L over the class representatives
  if(!*only||!strcmp(only,"reps")){
    std::vector<int> idx; for(int len=0;len<=L;++len){ idx.assign(len,0); while(true){ Text s(len); for(int i=0;i<len;++i) s[i]=RT.reps[idx[i]]; check_all(W,s); int i=len-1; while(i>=0&&++idx[i]==RT.k){ idx[i]=0; --i; } if(i<0) break; } } }
  // (iii) all byte strings of length <= Lb (code point 0 included: explicit ranges treat it as an ordinary invalid character)
  if(!*only||!strcmp(only,"bytes")){
    for(int len=1;len<=Lb;++len){ std::vector<int> idx(len,0); while(true){ check_all(W,Text(idx.begin(),idx.end())); int i=len-1; while(i>=0&&++idx[i]==256){ idx[i]=0; --i; } if(i<0) break; } } }
  // (iv) random walks of the graph with random edits (valid, or a few edits away from valid)
  if(!*only||!strcmp(only,"walks")){
    Rng R(g.seed); // same stream in every part; partitioning is by hash
    for(long w=0;w<walks;++w){ Text s; int st=0; int len=R.below(g.thorough?200:60);
      for(int i=0;i<len;++i){ // pick a random live class, then a random member of that class
        int c=R.below(RT.k); int tries=0; while(RT.next[(size_t)st*RT.k+c]<0&&tries<50){ c=R.below(RT.k); ++tries; }
        if(RT.next[(size_t)st*RT.k+c]<0) break; st=RT.next[(size_t)st*RT.k+c];
        int cp=RT.reps[c]; if(R.below(3)==0){ int cand=R.below(256); if(RT.class_of(cand)==c) cp=cand; } s.push_back(cp); }
      if(R.below(2)) cat(s,RT.comp[st]);
      int edits=R.below(3); for(int e=0;e<edits&&!s.empty();++e){ int pos=R.below((int)s.size()); switch(R.below(3)){ case 0: s[pos]=R.below(256); break; case 1: s.erase(s.begin()+pos); break; default: s.insert(s.begin()+pos,RT.reps[R.below(RT.k)]); } }
      check_all(W,s); } }
  return 0;
}
