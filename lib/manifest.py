"""Regenerates MANIFEST.json from the table below (kept valid at all times)."""
import json, os
V = os.path.dirname(os.path.dirname(os.path.abspath(__file__)))
props = [json.loads(l) for l in open(os.path.join(V, "properties.jsonl"))]
TLC = "TLA+ spec + TLC"
C = {
 "C01": dict(cat="model_checking", tech="TLC: complete exploration of the RFC 3986 position automaton (two grammar semantics agree on all 1,270 states); TLC-emitted state graph walked against the real parser (state cover x alphabet x probe suffixes); TLC trace validation of recorded parses",
   text="The recognizer machine of the specification is finite and TLC explores it completely (no length bound); the implementation is bound to it by walking the emitted graph at native speed through all six entry points and both character types, and a sample of recorded parses is validated by TLC with the independent matcher semantics.",
   note="Trusted: TLC/SANY, the RFC 3986 App. A transcription (cross-checked: automaton vs matcher on every state). Conformance is W-method-style testing, complete only if the code has no more control states than the probes separate; input-length-dependent behaviour (stack depth) is outside.", ref="4 C01"),
 "C02": dict(cat="model_checking", tech="TLC: Appendix-B split vs Appendix-A grammar on all texts up to a bound over three alphabets; TLC trace validation of recorded parses (components, spans, host kind, address bytes, well-formedness)",
   text="TLC checks on the specification that the component split tiles the input and that each piece matches its grammar rule; every recorded real parse (all entry points, both widths) of a graph-generated corpus is then validated by TLC against Components/CompSpans.",
   note="Trusted: TLC, spec/UriValue.tla, the harness projection. Bounded corpus (systematic IPv6/IPv4 family, late-decision shapes, accepted strings over focused alphabets, random graph walks).", ref="4 C02"),
 "C03": dict(cat="exploration", tech="TLC trace validation of recorded parses of every prefix of a corpus, flush against a guard page and mid-buffer with varying trailing content; allocation ledger automaton folded by TLC",
   text="The over-read/over-write clauses are made observable by the execution environment (PROT_NONE guard pages, ASan); the trace specification supplies the expected outcome for the range alone, the span-inside-input rule and the ledger automaton (nothing allocated after failure, repeated free releases nothing).",
   note="Exploration: the environment turns a bad access into an event the specification has no action for. Not a proof of memory safety.", ref="4 C03"),
 "C04": dict(cat="model_checking", tech="TLC: Recompose(Components(s)) round trip on all texts up to a bound; TLC trace validation of uriToString on borrowed and owned URIs and of re-parse equality",
   text="TLC checks the round-trip law on the specification; recorded real recompositions (borrowed and after make-owner) are validated by TLC against Recompose(Components(in)), and the re-parsed text must compare equal both ways.",
   note="Trusted: TLC, spec/UriValue.tla (RFC 3986 5.3), harness projection. Bounded corpus as C02.", ref="4 C04"),
 "C05": dict(cat="model_checking", tech="TLC: bounded append-by-piece writer model (never writes at index >= cap, contract); TLC trace validation of uriToString/CharsRequired for every capacity, guard-page and canary layouts",
   text="The bounded-writer design is model-checked; real URI objects (parsed, normalized, resolved) are written with every capacity from -1 to required+2 into buffers ending at a PROT_NONE page and into canary-followed buffers, and TLC validates each recorded outcome against the WriteOK contract for Recompose of the logged value.",
   note="Trusted: TLC, spec/UriWriter.tla and UriValue.tla, guard pages/ASan for the out-of-capacity write. Bounded corpus of URIs.", ref="4 C05"),
 "C06": dict(cat="model_checking", tech="TLC: RFC 3986 5.2.2 on values checked against the literal text-level 5.2.2/5.2.3/5.2.4 algorithm and the RFC 5.4 tables over a component universe; TLC trace validation of recorded uriAddBaseUri* executions",
   text="TLC shows on ~10^5 (reference, base, option) states that the value-level resolution equals the RFC's literal text algorithm except exactly the two named exceptions and that every target reads back as held; recorded real resolutions (three entry points, both widths) of that universe and of random longer paths are validated by TLC against ResolveT applied to the projected real inputs.",
   note="Trusted: TLC, the transcription (cross-checked inside TLC against the literal algorithm and the RFC example tables), harness projection. Bounded universe + seeded random paths.", ref="4 C06"),
 "C08": dict(cat="model_checking", tech="TLC: normal-form idempotence, mask locality/composition, structure theorem over a component universe; TLC trace validation of uriNormalizeSyntax* and the mask-required query (borrowed/owned, all masks in thorough)",
   text="Normalize(value, mask) is model-checked for idempotence, per-mask locality and composition; recorded real normalizations and mask queries over percent-encoding/case/dot-segment alphabets are validated by TLC against Normalize and the MaskOK relation (any sufficient mask that is zero only for normal forms).",
   note="Trusted: TLC, spec/UriNormalize.tla, harness projection. A fully cancelled relative path may be '.' or empty for C08 (the empty form is C09's known finding).", ref="4 C08"),
 "C09": dict(cat="model_checking", tech="TLC: Normalize(Resolve(Normalize R, B)) = Normalize(Resolve(R, B)) and kind preservation over the component universe; TLC trace validation of both real pipelines; named deviation for the recorded known finding",
   text="The C09 equation and the kind clause are invariants of the value machine checked by TLC; both pipelines are executed in the real library for the universe and random deep '..' references and validated by TLC. The one recorded defect (cancelled relative path becomes empty, pinned by the repository's tests) is accepted only through its named deviation action, which predicts the exact defective output.",
   note="Known finding KF-C09-1 (known_findings.json) is printed as KNOWN-FINDING; any other disagreement is a VIOLATION. Trusted: TLC, spec, projection.", ref="4 C09"),
 "C11": dict(cat="model_checking", tech="TLC: every value produced by resolution/normalization has the structure parsing its text yields (equal <=> same text); TLC trace validation of uriEqualsUri on all pairs of a pool of real objects incl. produced ones and aliasing ranges",
   text="The structure theorem that makes 'equal iff same text' true is model-checked on the value machine; uriEqualsUri is run on all ordered pairs of real objects differing in one component, produced by resolution/normalization, or parsed from one shared buffer, and TLC validates result, symmetry, text agreement and that arguments stay bit-for-bit unchanged.",
   note="Trusted: TLC, spec/UriValue.tla Equal, harness projection and byte snapshots. Bounded pool.", ref="4 C11"),
 "C16": dict(cat="model_checking", tech="TLC: escape transducer per transition and on all strings to a bound, round-trip law, in-place unescape machine with explicit cursors (w<=r, no write past terminator); TLC trace validation of uriEscape*/uriUnescapeInPlace* with exact-size guard-page buffers",
   text="The escape transducer and the two-cursor in-place unescape machine are model-checked (growth bound per transition, alphabet, round trip, cursor invariant); recorded real calls over all short strings, every code point in context, malformed sequences and random strings are validated by TLC, with buffers of exactly 3n+1/6n+1/n+1 characters ending at a guard page.",
   note="Trusted: TLC, spec/UriEscape.tla, guard pages. Bounded string lengths + seeded random.", ref="4 C16"),
 "C17": dict(cat="model_checking", tech="TLC: Dissect(Compose(l)) round trip, size sufficiency, output alphabet, scaled INT_MAX refusal; TLC trace validation of chars-required / compose (every capacity) / malloc variants / dissect; giant inputs under UBSan",
   text="Query composition/dissection laws are model-checked on lists to a bound, the INT_MAX refusal on a scaled constant; recorded real calls (all capacities with guard-page and canary layouts, malloc variants dissected again, dissection of all short arrangements) are validated by TLC against a relation that allows either outcome between the real length and the worst case; two giant inputs exercise the size arithmetic at real scale.",
   note="Trusted: TLC, spec/UriQuery.tla. INT_MAX clause: scaled model + two real-scale inputs only.", ref="4 C17"),
 "C18": dict(cat="model_checking", tech="TLC: round trip, RFC 3986 validity (matcher), prefix form and documented sizes for all names to a bound in the documented domain; TLC trace validation of the four conversions with exact-size guard-page buffers",
   text="The four conversions are specified as functions and model-checked on all short names of the documented domain; recorded real conversions (every code point per position class, random names, both directions and widths, exact documented buffer sizes at a guard page, produced URI through the real parser) are validated by TLC.",
   note="Trusted: TLC, spec/UriFile.tla. The documented Windows domain excludes names with '/', a non-letter 'drive' and UNC with an empty server (stated in DESIGN).", ref="4 C18"),
 "C13": dict(cat="model_checking", tech="TLC: allocation-ledger automaton characterised over all short histories; TLC trace validation of per-phase allocator logs for every manager-taking function under a recording manager (libc interposed via --wrap), the default manager and a completed manager; all 31 incomplete managers",
   text="The ledger automaton is model-checked (balanced iff every handed-out block is released exactly once); every manager-taking function is run on a URI corpus with three manager kinds, the allocator log of each phase (set-up, call, matching release, repeated release) is folded by TLC through the automaton, libc allocation inside a call that was given a manager is itself a logged event, and every incomplete manager must be rejected with an empty log.",
   note="Trusted: TLC, spec/UriLedger.tla, the recording manager and the -Wl,--wrap interposition of the harness. Failure paths are C14's sweep.", ref="4 C13"),
 "C14": dict(cat="fault_enumeration", tech="exhaustive allocation-failure sweep (every request position k, fail-once and fail-from-k) over a fixed list of operation/input shapes; each run's allocator log validated by TLC against the ledger automaton and the out-of-memory return rule",
   text="For every listed (operation, input) shape the k-th request through the supplied manager is failed for every k up to the fault-free count plus one, in both modes; TLC requires URI_ERROR_MALLOC exactly when a request failed, an empty ledger after the caller's ordinary cleanup, no double/unknown release and unchanged read-only inputs; released blocks are really freed under ASan so touching one is a crash.",
   note="Exhaustive over failure positions of the listed shapes, not over all inputs. Trusted: TLC, spec/UriLedger.tla, recording manager, ASan.", ref="4 C14"),
 "C15": dict(cat="model_checking", tech="TLC: design model of the completed manager (size header, realloc by copy, overflow-checked products) on a scaled word with backend failure at any call; stateful TLC trace validation of random call sequences on the real completed manager over an instrumented backend",
   text="The wrapper's design is model-checked against the C allocator contract on a scaled SIZE_MAX (so near-overflow sizes are reachable) with nondeterministic backend failure; recorded call sequences on the real manager (sizes up to SIZE_MAX, overflowing factor pairs, failure plans, pattern-filled blocks, canaries) are validated by a stateful trace specification that carries live user and backend blocks through each episode.",
   note="Trusted: TLC, spec/UriMemory.tla + Trace_Memory.tla; content observations by the harness and ASan. Random sequences, seeded.", ref="4 C15"),
}
def gen():
    checks = []
    for p in props:
        c = C.get(p["id"])
        if not c: continue
        checks.append(dict(property_id=p["id"], quick_cmd="bin/vcheck %s --tier quick" % p["id"], thorough_cmd="bin/vcheck %s --tier thorough" % p["id"],
            evidence_file="/verif/evidence/%s.json" % p["id"], replay_cmd_template="bin/vcheck %s --replay {path}" % p["id"], engine="tla-tlc-conformance",
            level_claimed=dict(category=c["cat"], text=c["text"], design_ref="DESIGN.md section " + c["ref"]), level_note=c["note"], technique=c["tech"]))
    m = dict(version=1, setup_cmd="bin/vsetup",
      hooks=dict(guard="URIPARSER_VERIF", enable="checks compile /repo/src/*.c directly with -DURIPARSER_VERIF together with the harness (lib/vlib.py build); no source hook is needed so far: the library is sequential, the linearization point of every action is the return of the public call and the public structures expose the whole abstract state",
                 baseline_off_cmd="cmake -G Ninja -S /repo -B /repo/_build -DURIPARSER_BUILD_DOCS=OFF -DGTest_DIR=/root/miniconda/lib/cmake/GTest >/dev/null && cmake --build /repo/_build >/dev/null && ctest --test-dir /repo/_build -j8 --timeout 900",
                 source_commits=[], add_only=True),
      engines=[dict(name="tla-tlc-conformance", path="/verif/spec + /verif/harness + /verif/lib", serves_properties=sorted(C), kind_free_text="explicit TLA+ specification checked by TLC; TLC-emitted graphs/expectations replayed into the real library; recorded executions validated by TLC trace specifications")],
      checks=checks,
      notes="Model-based verification with an explicit TLA+ specification (spec/), TLC, and two-way conformance; see DESIGN.md.",
      not_applicable=[dict(property_id=p["id"], reason="check not built yet (framework under construction; DESIGN.md section 9 gives the build order)") for p in props if p["id"] not in C])
    json.dump(m, open(os.path.join(V, "MANIFEST.json"), "w"), indent=1)
if __name__ == "__main__":
    gen()
