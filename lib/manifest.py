"""Regenerates MANIFEST.json from the table below (kept valid at all times)."""
import json, os
V = os.path.dirname(os.path.dirname(os.path.abspath(__file__)))
props = [json.loads(l) for l in open(os.path.join(V, "properties.jsonl"))]
TLC = "TLA+ spec + TLC"
C = {
 "C01": dict(cat="model_checking", tech="TLC: complete exploration of the RFC 3986 position automaton (two grammar semantics agree on all 1,270 states); TLC-emitted state graph walked against the real parser (state cover x alphabet x probe suffixes); TLC trace validation of recorded parses",
   text="The recognizer machine of the specification is finite and TLC explores it completely (no length bound); the implementation is bound to it by walking the emitted graph at native speed through all six entry points and both character types, and a sample of recorded parses is validated by TLC with the independent matcher semantics.",
   note="Trusted: TLC/SANY, the RFC 3986 App. A transcription (cross-checked: automaton vs matcher on every state). Conformance is W-method-style testing, complete only if the code has no more control states than the probes separate; input-length-dependent behaviour (stack depth) is outside.", ref="4 C01"),
 "C02": dict(cat="model_checking", tech="TLC: Appendix-B split vs Appendix-A grammar on all texts up to a bound over three alphabets; TLC trace validation of recorded parses (components, spans, host kind, address bytes, well-formedness)",
   text="TLC checks on the specification that the component split tiles the input and that each piece matches its grammar rule; every recorded real parse (all entry points, both widths) of a graph-generated corpus is then validated by TLC against Components/CompSpans.",
   note="Trusted: TLC, spec/UriValue.tla, the harness projection. Bounded corpus (systematic IPv6/IPv4 family, late-decision shapes, accepted strings over focused alphabets, random graph walks).", ref="4 C02"),
 "C03": dict(cat="exploration", tech="TLC trace validation of recorded parses of every prefix of a corpus, flush against a guard page and mid-buffer with varying trailing content; allocation ledger automaton folded by TLC",
   text="The over-read/over-write clauses are made observable by the execution environment (PROT_NONE guard pages, ASan); the trace specification supplies the expected outcome for the range alone, the span-inside-input rule and the ledger automaton (nothing allocated after failure, repeated free releases nothing).",
   note="Exploration: the environment turns a bad access into an event the specification has no action for. Not a proof of memory safety.", ref="4 C03"),
 "C04": dict(cat="model_checking", tech="TLC: Recompose(Components(s)) round trip on all texts up to a bound; TLC trace validation of uriToString on borrowed and owned URIs and of re-parse equality",
   text="TLC checks the round-trip law on the specification; recorded real recompositions (borrowed and after make-owner) are validated by TLC against Recompose(Components(in)), and the re-parsed text must compare equal both ways.",
   note="Trusted: TLC, spec/UriValue.tla (RFC 3986 5.3), harness projection. Bounded corpus as C02.", ref="4 C04"),
}
def gen():
    checks = []
    for p in props:
        c = C.get(p["id"])
        if not c: continue
        checks.append(dict(property_id=p["id"], quick_cmd="bin/vcheck %s --tier quick" % p["id"], thorough_cmd="bin/vcheck %s --tier thorough" % p["id"],
            evidence_file="/verif/evidence/%s.json" % p["id"], replay_cmd_template="bin/vcheck %s --replay {path}" % p["id"], engine="tla-tlc-conformance",
            level_claimed=dict(category=c["cat"], text=c["text"], design_ref="DESIGN.md section " + c["ref"]), level_note=c["note"], technique=c["tech"]))
    m = dict(version=1, setup_cmd="bin/vsetup",
      hooks=dict(guard="URIPARSER_VERIF", enable="checks compile /repo/src/*.c directly with -DURIPARSER_VERIF together with the harness (lib/vlib.py build); no source hook is needed so far: the library is sequential, the linearization point of every action is the return of the public call and the public structures expose the whole abstract state",
                 baseline_off_cmd="cmake -G Ninja -S /repo -B /repo/_build -DURIPARSER_BUILD_DOCS=OFF -DGTest_DIR=/root/miniconda/lib/cmake/GTest >/dev/null && cmake --build /repo/_build >/dev/null && ctest --test-dir /repo/_build -j8 --timeout 900",
                 source_commits=[], add_only=True),
      engines=[dict(name="tla-tlc-conformance", path="/verif/spec + /verif/harness + /verif/lib", serves_properties=sorted(C), kind_free_text="explicit TLA+ specification checked by TLC; TLC-emitted graphs/expectations replayed into the real library; recorded executions validated by TLC trace specifications")],
      checks=checks,
      notes="Model-based verification with an explicit TLA+ specification (spec/), TLC, and two-way conformance; see DESIGN.md.",
      not_applicable=[dict(property_id=p["id"], reason="check not built yet (framework under construction; DESIGN.md section 9 gives the build order)") for p in props if p["id"] not in C])
    json.dump(m, open(os.path.join(V, "MANIFEST.json"), "w"), indent=1)
if __name__ == "__main__":
    gen()
