"""Turn the recognizer state graph that TLC emitted (Emit_Recognizer) into the table the native walker follows.
No semantics are added here: states, edges, acceptance and the code-point partition are exactly TLC's."""
import json, sys, collections

def load(path):
    classes = None; init = None; edges = []
    for line in open(path):
        line = line.strip()
        if not line: continue
        r = json.loads(line)
        if isinstance(r, str): r = json.loads(r)
        if r["k"] == "classes": classes = r["reps"]
        elif r["k"] == "init": init = r
        else: edges.append(r)
    return classes, init, edges

def build(path, out):
    classes, init, edges = load(path)
    if isinstance(classes, dict):
        classes = [classes[str(i)] for i in range(len(classes))]
    reps = sorted(set(classes))
    cidx = {r: i for i, r in enumerate(reps)}
    ids = {init["s"]: 0}; acc = [1 if init["acc"] else 0]; pre = [[]]
    trans = {}
    for e in edges:
        if e["dead"]:
            continue
        if e["t"] not in ids:
            ids[e["t"]] = len(acc); acc.append(1 if e["acc"] else 0); pre.append(e["pre"])
    for e in edges:
        s = ids[e["s"]]
        trans[(s, cidx[e["c"]])] = -1 if e["dead"] else ids[e["t"]]
    n = len(acc); k = len(reps)
    # every (state, class) must have been explored by TLC
    missing = [(s, c) for s in range(n) for c in range(k) if (s, c) not in trans]
    if missing:
        raise SystemExit("graph incomplete: %d missing transitions" % len(missing))
    # shortest accepting completion per state (backward BFS) - used only to build probe suffixes
    comp = [None] * n
    rev = collections.defaultdict(list)
    for (s, c), t in trans.items():
        if t >= 0: rev[t].append((s, c))
    dq = collections.deque()
    for s in range(n):
        if acc[s]: comp[s] = []; dq.append(s)
    while dq:
        t = dq.popleft()
        for (s, c) in rev[t]:
            if comp[s] is None:
                comp[s] = [reps[c]] + comp[t]; dq.append(s)
    if any(c is None for c in comp):
        raise SystemExit("a viable state has no accepting completion")
    with open(out, "w") as f:
        f.write("%d %d\n" % (n, k))
        f.write(" ".join(str(cidx[c]) for c in classes) + "\n")
        f.write(" ".join(map(str, reps)) + "\n")
        for s in range(n):
            f.write("%d %s\n" % (acc[s], " ".join(str(trans[(s, c)]) for c in range(k))))
        for s in range(n):
            f.write("%d %s\n" % (len(pre[s]), " ".join(map(str, pre[s]))))
        for s in range(n):
            f.write("%d %s\n" % (len(comp[s]), " ".join(map(str, comp[s]))))
    return {"states": n, "classes": k, "edges": len(edges)}

if __name__ == "__main__":
    print(json.dumps(build(sys.argv[1], sys.argv[2])))
