"""Shared machinery of the checks: building the harness against /repo's working tree, running TLC,
validating recorded traces against trace specifications, known findings, evidence files."""
import threading, os, sys, json, time, hashlib, subprocess, shutil, glob, re, tempfile, concurrent.futures

VERIF = os.path.dirname(os.path.dirname(os.path.abspath(__file__)))
REPO = os.environ.get("VERIF_REPO", "/repo")
BUILD = os.path.join(VERIF, "build")
# scratch runs against a modified copy of the repository (bin/mutest) keep their run directories, replay files and evidence apart
RUNROOT = os.environ.get("VERIF_RUNROOT", BUILD)
EVIDENCE = os.environ.get("VERIF_EVIDENCE", os.path.join(VERIF, "evidence"))
SPEC = os.path.join(VERIF, "spec")
NCPU = int(os.environ.get("VERIF_JOBS", "16"))
GUARD = "URIPARSER_VERIF"

class Infra(Exception):
    """failure of the machinery itself (build, TLC, time-out): exit 2, never a VIOLATION"""

def log(*a):
    print(*a, flush=True)

def sh(cmd, **kw):
    return subprocess.run(cmd, shell=isinstance(cmd, str), stdout=subprocess.PIPE, stderr=subprocess.STDOUT, text=True, **kw)

# ------------------------------------------------------------------ build of the real library + harness
def tree_hash(paths):
    h = hashlib.sha256()
    for root in paths:
        for dp, dn, fn in sorted(os.walk(root)):
            dn.sort()
            for f in sorted(fn):
                p = os.path.join(dp, f)
                h.update(p.encode()); h.update(open(p, "rb").read())
    return h.hexdigest()[:16]

VARIANTS = {
    "asan":  dict(cc="clang", cxx="clang++", flags="-g -O1 -fsanitize=address,undefined -fno-sanitize-recover=undefined -fno-omit-frame-pointer"),
    "plain": dict(cc="gcc", cxx="g++", flags="-O2 -g"),
    "tsan":  dict(cc="clang", cxx="clang++", flags="-g -O1 -fsanitize=thread"),
    # the library as a real shared object (-z now: relocation done at load time, so its writable segment can be mapped read-only)
    "shared": dict(cc="gcc", cxx="g++", flags="-O1 -g", shared=True),
}
WRAP = "-Wl,--wrap=malloc,--wrap=calloc,--wrap=realloc,--wrap=reallocarray,--wrap=free"

def build(variant="asan"):
    """Compile /repo/src/*.c directly (no CMake) with the harness. Keyed by content so that an edit of the tree rebuilds."""
    if os.environ.get("VERIF_COV_EXE") and variant in ("asan", "plain"):      # bin/covaudit: the same streams on a gcov-instrumented library
        return os.environ["VERIF_COV_EXE"]
    os.makedirs(BUILD, exist_ok=True)
    key = tree_hash([os.path.join(REPO, "src"), os.path.join(REPO, "include"), os.path.join(VERIF, "harness")])
    out = os.path.join(BUILD, "%s-%s" % (variant, key))
    exe = os.path.join(out, "vh")
    if os.path.exists(exe):
        return exe
    # drop stale builds of this variant - but never one that another process may be building or running right now
    # (checks against a modified copy of the repository run side by side with checks against /repo): only directories untouched for hours
    for d in glob.glob(os.path.join(BUILD, variant + "-*")):
        try:
            if time.time() - os.path.getmtime(d) > 6 * 3600: shutil.rmtree(d, ignore_errors=True)
        except OSError:
            pass
    tmp = out + ".tmp%d" % os.getpid()
    shutil.rmtree(tmp, ignore_errors=True); os.makedirs(tmp)
    v = VARIANTS[variant]
    cfg = open(os.path.join(REPO, "src", "UriConfig.h.in")).read()
    ver = re.search(r"project\(\s*uriparser\s+VERSION\s+([0-9.]+)", open(os.path.join(REPO, "CMakeLists.txt")).read(), re.S)
    cfg = cfg.replace("@PROJECT_VERSION@", ver.group(1) if ver else "0").replace("#cmakedefine HAVE_WPRINTF", "#define HAVE_WPRINTF").replace("#cmakedefine HAVE_REALLOCARRAY", "#define HAVE_REALLOCARRAY")
    open(os.path.join(tmp, "UriConfig.h"), "w").write(cfg)
    inc = "-I%s -I%s -I%s" % (os.path.join(REPO, "include"), tmp, os.path.join(REPO, "src"))
    jobs = []
    for c in sorted(glob.glob(os.path.join(REPO, "src", "*.c"))):
        o = os.path.join(tmp, os.path.basename(c) + ".o")
        jobs.append("%s %s -D%s -D_GNU_SOURCE %s -c %s -o %s" % (v["cc"], v["flags"], GUARD, inc, c, o))
    for c in sorted(glob.glob(os.path.join(VERIF, "harness", "*.cpp"))):
        o = os.path.join(tmp, os.path.basename(c) + ".o")
        jobs.append("%s -std=c++17 %s -D%s %s -c %s -o %s" % (v["cxx"], v["flags"], GUARD, inc, c, o))
    if v.get("shared"):
        jobs = [j.replace(" -c ", " -fPIC -c ", 1) if "/src/" in j.split(" -c ")[1] else j for j in jobs]
    with concurrent.futures.ThreadPoolExecutor(NCPU) as ex:
        res = list(ex.map(sh, jobs))
    for j, r in zip(jobs, res):
        if r.returncode != 0:
            shutil.rmtree(tmp, ignore_errors=True)
            raise Infra("build failed (%s):\n%s\n%s" % (variant, j, r.stdout[-3000:]))
    if v.get("shared"):
        libobjs = " ".join(os.path.join(tmp, os.path.basename(c) + ".o") for c in sorted(glob.glob(os.path.join(REPO, "src", "*.c"))))
        hobjs = " ".join(os.path.join(tmp, os.path.basename(c) + ".o") for c in sorted(glob.glob(os.path.join(VERIF, "harness", "*.cpp"))))
        r = sh("%s -shared -Wl,-z,now -Wl,-z,relro -o %s/liburiparser.so %s" % (v["cc"], tmp, libobjs))
        if r.returncode == 0:
            r = sh("%s %s %s %s -o %s/vh -L%s -luriparser -Wl,-rpath,'$ORIGIN' -lpthread" % (v["cxx"], v["flags"], WRAP, hobjs, tmp, tmp))
    else:
        r = sh("%s %s %s %s/*.o -o %s/vh -lpthread" % (v["cxx"], v["flags"], WRAP, tmp, tmp))
    if r.returncode != 0:
        shutil.rmtree(tmp, ignore_errors=True)
        raise Infra("link failed:\n" + r.stdout[-3000:])
    for o in glob.glob(tmp + "/*.o"):
        os.remove(o)
    os.rename(tmp, out)
    return exe

HARNESS_ENV = {"ASAN_OPTIONS": "handle_segv=0:allow_user_segv_handler=1:detect_leaks=0:abort_on_error=1:handle_abort=0:allocator_may_return_null=1", "UBSAN_OPTIONS": "print_stacktrace=1:halt_on_error=1"}

def run_harness(exe, args, outdir, stream, timeout=900, parts=1, extra_env=None):
    """Run a harness driver (optionally as `parts` processes over a hash partition of its input space).
    Returns dict(stats=[...], violations=[...], crashed=[case...]).  A crash or time-out inside a library call is reported
    with the case that was in flight (the harness keeps it in <stream>.current)."""
    os.makedirs(outdir, exist_ok=True)
    env = dict(os.environ); env.update(HARNESS_ENV)
    if extra_env: env.update(extra_env)
    procs = []
    for p in range(parts):
        st = stream if parts == 1 else "%s_p%d" % (stream, p)
        cmd = [exe] + args + ["--out", outdir, "--stream", st] + (["--part", str(p), "--nparts", str(parts)] if parts > 1 else [])
        procs.append((st, subprocess.Popen(cmd, cwd=VERIF, env=env, stdout=subprocess.PIPE, stderr=subprocess.STDOUT, text=True)))
    res = dict(stats=[], violations=[], crashed=[], streams=[])
    deadline = time.time() + timeout
    # a run-away library call (a loop that keeps allocating) must not take the machine down: a harness process above 16 GiB resident is stopped
    # and counted as "did not return" (the largest legitimate driver stays below 4 GiB)
    hogs = set(); stop = threading.Event()
    def watch():
        page = os.sysconf("SC_PAGE_SIZE")
        while not stop.wait(0.5):
            if all(pr.poll() is not None for _, pr in procs): return
            for _, pr in procs:
                if pr.poll() is None:
                    try:
                        rss = int(open("/proc/%d/statm" % pr.pid).read().split()[1]) * page
                    except (OSError, ValueError, IndexError):
                        continue
                    if rss > 16 * 2**30:
                        hogs.add(pr.pid); pr.kill()
    wt = threading.Thread(target=watch, daemon=True); wt.start()
    for st, pr in procs:
        try:
            out, _ = pr.communicate(timeout=max(1, deadline - time.time()))
            rc = "memory" if pr.pid in hogs else pr.returncode
        except subprocess.TimeoutExpired:
            pr.kill(); out, _ = pr.communicate(); rc = "timeout"
        res["streams"].append(st)
        cur = ""
        try:
            cur = open(os.path.join(outdir, st + ".current"), "rb").read().split(b"\0")[0].decode(errors="replace")
        except OSError:
            pass
        if rc != 0:
            if rc == 2 and not cur:
                raise Infra("harness usage/setup error: " + out[-2000:])
            res["crashed"].append(dict(stream=st, rc=rc, case=cur, output=out[-4000:]))
            continue
        sp = os.path.join(outdir, st + ".stats.json")
        if os.path.exists(sp):
            res["stats"].append(json.load(open(sp)))
        vp = os.path.join(outdir, st + ".violations.ndjson")
        if os.path.exists(vp):
            res["violations"] += [json.loads(l) for l in open(vp) if l.strip()]
    stop.set()
    return res

def merge_stats(stats):
    m = dict(evaluations=0, events=0, distinct_nontrivial=0, violations=0, samples=[])
    for s in stats:
        for k in ("evaluations", "events", "distinct_nontrivial", "violations"):
            m[k] += s.get(k, 0)
        m["samples"] += s.get("samples", [])
    m["samples"] = m["samples"][:8]
    return m

# ------------------------------------------------------------------ TLC
TLC_JAR = "/opt/veriftools/tla/tla2tools.jar"

def tlc(module, cfg=None, workers=NCPU, env=None, timeout=1800, extra=None, heap="8g", cwd=SPEC, coverage=False):
    """Run TLC; returns dict(rc, out, states, distinct, depth, coverage)."""
    meta = tempfile.mkdtemp(prefix="tlc-", dir=os.environ.get("VERIF_TMP", "/tmp"))
    e = dict(os.environ); e.update(env or {})
    cmd = ["java", "-Xmx" + heap, "-Xss512m", "-XX:+UseParallelGC", "-cp", TLC_JAR + ":/opt/veriftools/tla/CommunityModules-deps.jar", "tlc2.TLC",
           "-noGenerateSpecTE", "-workers", str(workers), "-metadir", meta, "-config", cfg or (module + ".cfg")]
    if coverage: cmd += ["-coverage", "1"]
    cmd += (extra or []) + [module + ".tla"]
    t0 = time.time()
    try:
        r = subprocess.run(cmd, cwd=cwd, env=e, stdout=subprocess.PIPE, stderr=subprocess.STDOUT, text=True, timeout=timeout)
        out, rc = r.stdout, r.returncode
    except subprocess.TimeoutExpired as ex:
        out, rc = (ex.stdout or b"").decode(errors="replace") if isinstance(ex.stdout, bytes) else (ex.stdout or ""), "timeout"
    finally:
        shutil.rmtree(meta, ignore_errors=True)
    res = dict(rc=rc, out=out, wall=time.time() - t0, states=0, distinct=0, depth=0)
    m = re.findall(r"(\d+) states generated, (\d+) distinct states found", out)
    if m:
        res["states"], res["distinct"] = int(m[-1][0]), int(m[-1][1])
    m = re.search(r"depth of the complete state graph search is (\d+)", out)
    if m: res["depth"] = int(m.group(1))
    return res

def tlc_classpath_probe():
    r = sh("cat $(which tlc)")
    return r.stdout

def model_check(module, cfg=None, timeout=1800, workers=NCPU, env=None, coverage=False):
    """Model-check a spec; any invariant violation of the *specification itself* is an infrastructure error (the spec is wrong),
    never a verdict about the implementation."""
    r = tlc(module, cfg, workers=workers, timeout=timeout, env=env, coverage=coverage)
    if r["rc"] != 0:
        raise Infra("TLC failed on %s (rc=%s):\n%s" % (module, r["rc"], r["out"][-3000:]))
    return r

# ------------------------------------------------------------------ trace validation
def _drop_partial_tail(trace):
    """a harness that was killed in mid-write leaves a truncated last line; everything before it is still a valid record"""
    data = open(trace, "rb").read()
    if not data or data.endswith(b"\n"):
        lines = data.split(b"\n")
        if len(lines) >= 2:
            try: json.loads(lines[-2] or b"{}")
            except ValueError: open(trace, "wb").write(b"\n".join(lines[:-2]) + (b"\n" if len(lines) > 2 else b""))
        return
    open(trace, "wb").write(data[:data.rfind(b"\n") + 1])

def _validate_one(args):
    module, trace, rej, timeout = args
    _drop_partial_tail(trace)
    n = sum(1 for l in open(trace) if l.strip())
    if n == 0:
        return dict(trace=trace, n=0, rejects=[], ok=True, out="")
    if os.path.exists(rej): os.remove(rej)
    for attempt in range(2):
        r = tlc(module, workers=1, env={"TRACE": trace, "REJ": rej}, timeout=timeout, heap="3g")
        recs = []
        if os.path.exists(rej):
            for l in open(rej):
                l = l.strip()
                if not l: continue
                v = json.loads(l)
                if isinstance(v, str): v = json.loads(v)
                recs.append(v)
        done = [x for x in recs if "done" in x]
        if r["rc"] == 0 and done and done[-1]["done"] == n:
            return dict(trace=trace, n=n, rejects=[x for x in recs if "done" not in x], ok=True, out="")
        if os.path.exists(rej): os.remove(rej)
    return dict(trace=trace, n=n, rejects=[], ok=False, out=r["out"][-3000:])

def validate(module, traces, timeout=1500):
    """Validate ND-JSON traces against a trace spec, one single-worker TLC per file, NCPU at a time.
    Returns (events, rejects) ; raises Infra if TLC itself failed twice on a shard."""
    jobs = [(module, t, t + ".rej", timeout) for t in traces if os.path.exists(t)]
    with concurrent.futures.ThreadPoolExecutor(NCPU) as ex:
        res = list(ex.map(_validate_one, jobs))
    bad = [r for r in res if not r["ok"]]
    if bad:
        raise Infra("trace validation did not complete on %s:\n%s" % (bad[0]["trace"], bad[0]["out"]))
    rejects = []
    for r in res:
        for x in r["rejects"]:
            x["trace"] = r["trace"]; rejects.append(x)
    return sum(r["n"] for r in res), rejects

def shard_files(outdir, stream, n=16):
    return [os.path.join(outdir, "%s.%d.ndjson" % (stream, i)) for i in range(n)]

# ------------------------------------------------------------------ known findings
def known_findings():
    p = os.path.join(VERIF, "known_findings.json")
    if not os.path.exists(p): return dict(findings=[], fixed=[])
    return json.load(open(p))

# ------------------------------------------------------------------ evidence
def write_evidence(pid, tier, seed, level, coverage, wall, violations, assumptions):
    os.makedirs(EVIDENCE, exist_ok=True)
    ev = dict(property_id=pid, tier=tier, seed=seed, level=level, coverage=coverage, assumptions=assumptions, wall_s=round(wall, 1), violations=violations)
    p = os.path.join(EVIDENCE, pid + ".json")
    json.dump(ev, open(p + ".tmp", "w"), indent=1); os.replace(p + ".tmp", p)
    return p
