"""The checks, one function per property. Each returns a Result that vcheck turns into exit code, VIOLATION / KNOWN-FINDING
lines and the evidence file."""
import os, sys, json, time, shutil, glob, hashlib
import vlib
from vlib import VERIF, SPEC, BUILD, Infra, log

class Result:
    def __init__(self, pid, level):
        self.pid = pid; self.level = level
        self.violations = []      # dicts (each becomes a replay file)
        self.known = []           # (finding id, text)
        self.coverage = dict(samples=[])
        self.assumptions = []
    def add_model(self, r, name):
        c = self.coverage
        c["states"] = c.get("states", 0) + r["distinct"]
        c["transitions"] = c.get("transitions", 0) + r["states"]
        c.setdefault("models", []).append(dict(model=name, distinct_states=r["distinct"], states_generated=r["states"], depth=r["depth"], wall_s=round(r["wall"], 1)))
    def add_stats(self, st):
        c = self.coverage
        c["evaluations"] = c.get("evaluations", 0) + st["evaluations"]
        c["distinct_nontrivial"] = c.get("distinct_nontrivial", 0) + st["distinct_nontrivial"]
        c["samples"] += st.get("samples", [])[:4]

def rundir(pid):
    d = os.path.join(BUILD, "run", pid)
    shutil.rmtree(d, ignore_errors=True); os.makedirs(d)
    return d

def spec_hash(files):
    h = hashlib.sha256()
    for f in files:
        h.update(open(os.path.join(SPEC, f), "rb").read())
    return h.hexdigest()[:16]

# ------------------------------------------------------------------ artefacts that depend on the specification only
def recognizer_table():
    """TLC explores the recognizer completely and writes its state graph; lib/graph.py re-indexes it for the native walker."""
    key = spec_hash(["UriChars.tla", "UriGrammar.tla", "UriLanguage.tla", "UriRecognizer.tla", "MC_Recognizer.tla", "Emit_Recognizer.tla"])
    tbl = os.path.join(BUILD, "recognizer-%s.tbl" % key)
    if not os.path.exists(tbl):
        import graph
        os.makedirs(BUILD, exist_ok=True)
        raw = tbl + ".ndjson"
        if os.path.exists(raw): os.remove(raw)
        r = vlib.tlc("Emit_Recognizer", workers=1, env={"EMIT_OUT": raw}, timeout=1200)
        if r["rc"] != 0: raise Infra("recognizer graph emission failed:\n" + r["out"][-2000:])
        graph.build(raw, tbl + ".tmp"); os.replace(tbl + ".tmp", tbl); os.remove(raw)
    link = os.path.join(BUILD, "recognizer.tbl")
    if os.path.lexists(link): os.remove(link)
    os.symlink(tbl, link)
    return tbl

def harness_crash_violations(res, pid, default_prop=None):
    out = []
    for c in res["crashed"]:
        out.append(dict(prop=default_prop or pid, why="the library crashed, was stopped by a sanitizer or did not return (rc=%s)" % c["rc"], case=c["case"], output=c["output"][-1500:]))
    return out

def validate_stream(res, module, outdir, stream, pid, also=()):
    """TLC-validate the event shards of a harness stream; keep only the rejections that concern property `pid`."""
    n, rejects = vlib.validate(module, vlib.shard_files(outdir, stream))
    mine = []
    for r in rejects:
        fails = [f for f in r["fails"] if f["p"] == pid or f["p"] in also]
        if fails:
            mine.append(dict(prop=pid, why="; ".join(f["why"] for f in fails), event=r["ev"], trace=r["trace"], line=r["line"], spec=module))
    res.coverage["traces_validated_against_impl"] = res.coverage.get("traces_validated_against_impl", 0) + n - len(rejects)
    res.coverage["events_validated"] = res.coverage.get("events_validated", 0) + n
    return mine

# ------------------------------------------------------------------ C01
def C01(tier, seed):
    res = Result("C01", "model_checking")
    out = rundir("C01")
    exe = vlib.build("asan")
    m = vlib.model_check("MC_Recognizer", coverage=False)
    res.add_model(m, "MC_Recognizer (complete exploration of the position automaton; Agree, Completable, LiteralRegion)")
    tbl = recognizer_table()
    args = ["parse_walk", "--table", tbl, "--seed", str(seed), "--tier", tier]
    h = vlib.run_harness(exe, args, out, "walk", parts=vlib.NCPU, timeout=3000 if tier == "thorough" else 900)
    res.violations += [v for v in h["violations"] if v.get("prop") == "C01"]
    res.violations += harness_crash_violations(h, "C01")
    st = vlib.merge_stats(h["stats"]); res.add_stats(st)
    # cross-check of walker and graph dump: a sample validated by TLC with the matcher M (the other formulation)
    n = "200000" if tier == "thorough" else "12000"
    h2 = vlib.run_harness(exe, ["parse_log", "--table", tbl, "--mode", "sample", "--n", n, "--seed", str(seed), "--tier", tier], out, "sample")
    res.violations += harness_crash_violations(h2, "C01")
    res.violations += validate_stream(res, "Trace_Parse", out, "sample", "C01")
    res.coverage["rule"] = ("strings are generated from the state graph TLC explored: every state's shortest prefix x every code point 0..255 (+ wide/out-of-range) x 17 probe suffixes; "
        "all strings over the class representatives up to length L; all byte strings up to length Lb; random graph walks with edits; each through 6 entry points x 2 character types. "
        "non-trivial = has a non-empty viable prefix; distinct = by text (the input space is hash-partitioned over the worker processes)")
    res.coverage["exhaustive"] = False
    res.assumptions = ["TLC/SANY and the CommunityModules Json/CSV modules", "RFC 3986 Appendix A transcription in spec/UriGrammar.tla (two semantics cross-checked by TLC on every state)",
        "W-method style: complete only if the implementation has no more distinguishable control states than the probe suffixes separate",
        "stack depth / behaviour that depends on input length beyond the explored lengths is not covered"]
    return res

# ------------------------------------------------------------------ C02, C04 (share the recorded executions), C03
def _parse_components(pid, tier, seed, mode="comp"):
    res = Result(pid, "model_checking")
    out = rundir(pid)
    exe = vlib.build("asan")
    tbl = recognizer_table()
    m = vlib.model_check("MC_Value", timeout=1500)
    res.add_model(m, "MC_Value (Components/Recompose round trip, span tiling, host classification over the focused alphabets)")
    n = "300000" if tier == "thorough" else "9000"
    h = vlib.run_harness(exe, ["parse_log", "--table", tbl, "--mode", mode, "--n", n, "--seed", str(seed), "--tier", tier], out, "plog")
    res.violations += harness_crash_violations(h, pid)
    res.add_stats(vlib.merge_stats(h["stats"]))
    res.violations += validate_stream(res, "Trace_Parse", out, "plog", pid)
    return res

def C02(tier, seed):
    res = _parse_components("C02", tier, seed)
    res.coverage["rule"] = ("accepted inputs produced by walking TLC's recognizer graph: all accepting strings up to length L over three focused alphabets, a systematic IPv6/IPv4 family "
        "(zipper position x groups before/after x digits per group x embedded IPv4 x boundary octets), scheme-vs-segment and host-vs-userinfo shapes decided late, component cross products, random walks; "
        "each real result (all entry points, both widths) is projected and compared by TLC with Components(in) and CompSpans(in). non-trivial = non-empty input; distinct by text")
    res.assumptions = ["TLC/SANY, CommunityModules", "RFC 3986 Appendix B split + host classification by the Appendix A matcher (spec/UriValue.tla)", "projection function of the harness (harness/vh.h Proj)"]
    return res

def C04(tier, seed):
    res = _parse_components("C04", tier, seed)
    res.coverage["rule"] = ("same accepted inputs as C02; for each: uriToString on the borrowed URI and after uriMakeOwner must equal Recompose(Components(in)) "
        "(the input, with an IPv6 literal in full lowercase form), and the re-parsed text must compare equal both ways. non-trivial = non-empty input; distinct by text")
    res.assumptions = ["TLC/SANY, CommunityModules", "spec/UriValue.tla Recompose = RFC 3986 section 5.3", "projection function of the harness"]
    return res

def C03(tier, seed):
    res = Result("C03", "exploration")
    out = rundir("C03")
    exe = vlib.build("asan")
    tbl = recognizer_table()
    n = "200000" if tier == "thorough" else "8000"
    h = vlib.run_harness(exe, ["parse_log", "--table", tbl, "--mode", "c03", "--n", n, "--seed", str(seed), "--tier", tier], out, "c03")
    res.violations += harness_crash_violations(h, "C03")
    res.add_stats(vlib.merge_stats(h["stats"]))
    res.violations += validate_stream(res, "Trace_Parse", out, "c03", "C03", also=("C01", "C02"))
    # guard-page parses at volume: the native walker places every input flush against a PROT_NONE page
    h2 = vlib.run_harness(exe, ["parse_walk", "--table", tbl, "--only", "walks", "--walks", "2000000" if tier == "thorough" else "150000", "--seed", str(seed + 1), "--tier", tier], out, "walk", parts=vlib.NCPU)
    res.violations += [dict(v, prop="C03") for v in h2["violations"] if v.get("prop") == "C03"]
    res.violations += harness_crash_violations(h2, "C03")
    res.add_stats(vlib.merge_stats(h2["stats"]))
    res.coverage["rule"] = ("every prefix t[0..k) of a corpus of texts parsed as an explicit range (a) flush against a PROT_NONE page and (b) in the middle of a buffer followed by the rest of the text or by "
        "content that would extend the token (']', digits, hex, delimiters, 0xFF); TLC (Trace_Parse) requires the outcome to be the specification's outcome for the range alone, every reported span inside the input "
        "(or the placeholder), an empty ledger after failure and no release on repeated free; a read past the range is a fault event. non-trivial = every case; distinct by (buffer, k)")
    res.coverage["exhaustive"] = False
    res.assumptions = ["the over-read clause is decided by the execution environment (guard pages, ASan) making the access an event; the specification forbids the event", "TLC/SANY, CommunityModules"]
    return res

CHECKS = {"C01": C01, "C02": C02, "C03": C03, "C04": C04}

# ------------------------------------------------------------------ known findings triage, replay
def triage(pid, violations, kf):
    """A violation is a known finding only if a listed entry of this property matches it exactly (same witness class as recorded
    in known_findings.json: the deviation name the trace spec attached). Nothing is added at run time."""
    listed = [f for f in kf.get("findings", []) if f["property"] == pid]
    new, known, seen = [], [], set()
    for v in violations:
        dev = v.get("dev", "")
        hit = next((f for f in listed if dev and f["deviation"] == dev), None)
        if hit:
            if hit["id"] not in seen:
                seen.add(hit["id"]); known.append(dict(id=hit["id"], text="%s: %s witness=%s" % (hit["deviation"], hit["what"], json.dumps(hit.get("witness")))))
        else:
            new.append(v)
    return new, known

def replay(pid, path):
    v = json.load(open(path))
    print(json.dumps(v, indent=1)[:4000])
    if "event" in v and "spec" in v:
        d = rundir("replay")
        t = os.path.join(d, "replay.0.ndjson"); open(t, "w").write(json.dumps(v["event"]) + "\n")
        n, rej = vlib.validate(v["spec"], [t])
        print("re-validated recorded event against %s: %s" % (v["spec"], "REJECTED " + json.dumps(rej[0]["fails"]) if rej else "accepted"))
        return 1 if rej else 0
    return 0
