"""The checks, one function per property. Each returns a Result that vcheck turns into exit code, VIOLATION / KNOWN-FINDING
lines and the evidence file."""
import os, sys, json, time, shutil, glob, hashlib
import vlib
from vlib import VERIF, SPEC, BUILD, Infra, log

class Result:
    def __init__(self, pid, level):
        self.pid = pid; self.level = level
        self.violations = []      # dicts (each becomes a replay file)
        self.known = []           # (finding id, text)
        self.coverage = dict(samples=[])
        self.assumptions = []
    def add_model(self, r, name):
        c = self.coverage
        c["states"] = c.get("states", 0) + r["distinct"]
        c["transitions"] = c.get("transitions", 0) + r["states"]
        c.setdefault("models", []).append(dict(model=name, distinct_states=r["distinct"], states_generated=r["states"], depth=r["depth"], wall_s=round(r["wall"], 1)))
    def add_stats(self, st):
        c = self.coverage
        c["evaluations"] = c.get("evaluations", 0) + st["evaluations"]
        c["distinct_nontrivial"] = c.get("distinct_nontrivial", 0) + st["distinct_nontrivial"]
        c["samples"] += st.get("samples", [])[:4]

def rundir(pid):
    d = os.path.join(vlib.RUNROOT, "run", pid)
    shutil.rmtree(d, ignore_errors=True); os.makedirs(d)
    return d

def spec_hash(files):
    h = hashlib.sha256()
    for f in files:
        h.update(open(os.path.join(SPEC, f), "rb").read())
    return h.hexdigest()[:16]

# ------------------------------------------------------------------ artefacts that depend on the specification only
def recognizer_table():
    """TLC explores the recognizer completely and writes its state graph; lib/graph.py re-indexes it for the native walker."""
    key = spec_hash(["UriChars.tla", "UriGrammar.tla", "UriLanguage.tla", "UriRecognizer.tla", "MC_Recognizer.tla", "Emit_Recognizer.tla"])
    tbl = os.path.join(BUILD, "recognizer-%s.tbl" % key)
    if not os.path.exists(tbl):
        import graph
        os.makedirs(BUILD, exist_ok=True)
        raw = tbl + ".ndjson"
        if os.path.exists(raw): os.remove(raw)
        r = vlib.tlc("Emit_Recognizer", workers=1, env={"EMIT_OUT": raw}, timeout=1200)
        if r["rc"] != 0: raise Infra("recognizer graph emission failed:\n" + r["out"][-2000:])
        graph.build(raw, tbl + ".tmp"); os.replace(tbl + ".tmp", tbl); os.remove(raw)
    link = os.path.join(BUILD, "recognizer.tbl")
    if os.path.lexists(link): os.remove(link)
    os.symlink(tbl, link)
    return tbl

def harness_crash_violations(res, pid, default_prop=None):
    out = []
    for c in res["crashed"]:
        out.append(dict(prop=default_prop or pid, why="the library crashed, was stopped by a sanitizer or did not return (rc=%s)" % c["rc"], case=c["case"], output=c["output"][-1500:]))
    return out

def validate_stream(res, module, outdir, stream, pid, also=()):
    """TLC-validate the event shards of a harness stream; keep only the rejections that concern property `pid`."""
    n, rejects = vlib.validate(module, vlib.shard_files(outdir, stream))
    mine = []
    for r in rejects:
        if any(f["p"] == "HARNESS" for f in r["fails"]):
            raise Infra("the driver and the trace specification disagree about what is enabled (%s): %s" % (module, json.dumps(r)[:1500]))
        fails = [f for f in r["fails"] if f["p"] == pid or f["p"] in also]
        if fails:
            devs = set(f.get("dev", "") for f in fails)
            mine.append(dict(prop=pid, why="; ".join(f["why"] for f in fails), dev=devs.pop() if len(devs) == 1 else "", event=r["ev"], trace=r["trace"], line=r["line"], spec=module))
    res.coverage["traces_validated_against_impl"] = res.coverage.get("traces_validated_against_impl", 0) + n - len(rejects)
    res.coverage["events_validated"] = res.coverage.get("events_validated", 0) + n
    return mine

# ------------------------------------------------------------------ C01
def C01(tier, seed):
    res = Result("C01", "model_checking")
    out = rundir("C01")
    exe = vlib.build("asan")
    m = vlib.model_check("MC_Recognizer", coverage=False)
    res.add_model(m, "MC_Recognizer (complete exploration of the position automaton; Agree, Completable, LiteralRegion)")
    tbl = recognizer_table()
    args = ["parse_walk", "--table", tbl, "--seed", str(seed), "--tier", tier]
    h = vlib.run_harness(exe, args, out, "walk", parts=vlib.NCPU, timeout=3000 if tier == "thorough" else 900)
    res.violations += [v for v in h["violations"] if v.get("prop") == "C01"]
    res.violations += harness_crash_violations(h, "C01")
    st = vlib.merge_stats(h["stats"]); res.add_stats(st)
    # cross-check of walker and graph dump: a sample validated by TLC with the matcher M (the other formulation)
    n = "200000" if tier == "thorough" else "12000"
    h2 = vlib.run_harness(exe, ["parse_log", "--table", tbl, "--mode", "sample", "--n", n, "--seed", str(seed), "--tier", tier], out, "sample")
    res.violations += harness_crash_violations(h2, "C01")
    res.violations += validate_stream(res, "Trace_Parse", out, "sample", "C01")
    res.coverage["rule"] = ("strings are generated from the state graph TLC explored: every state's shortest prefix x every code point 0..255 (+ wide/out-of-range) x 17 probe suffixes; "
        "all strings over the class representatives up to length L; all byte strings up to length Lb; random graph walks with edits; each through 6 entry points x 2 character types. "
        "non-trivial = has a non-empty viable prefix; distinct = by text (the input space is hash-partitioned over the worker processes)")
    res.coverage["exhaustive"] = False
    res.assumptions = ["TLC/SANY and the CommunityModules Json/CSV modules", "RFC 3986 Appendix A transcription in spec/UriGrammar.tla (two semantics cross-checked by TLC on every state)",
        "W-method style: complete only if the implementation has no more distinguishable control states than the probe suffixes separate",
        "stack depth / behaviour that depends on input length beyond the explored lengths is not covered"]
    return res

# ------------------------------------------------------------------ C02, C04 (share the recorded executions), C03
def _parse_components(pid, tier, seed, mode="comp"):
    res = Result(pid, "model_checking")
    out = rundir(pid)
    exe = vlib.build("asan")
    tbl = recognizer_table()
    m = vlib.model_check("MC_Value", cfg="MC_Value_t.cfg" if tier == "thorough" else "MC_Value.cfg", timeout=3000)
    res.add_model(m, "MC_Value (Components/Recompose round trip, span tiling, host classification over the focused alphabets)")
    n = "300000" if tier == "thorough" else "9000"
    h = vlib.run_harness(exe, ["parse_log", "--table", tbl, "--mode", mode, "--n", n, "--seed", str(seed), "--tier", tier], out, "plog")
    res.violations += harness_crash_violations(h, pid)
    res.add_stats(vlib.merge_stats(h["stats"]))
    res.violations += validate_stream(res, "Trace_Parse", out, "plog", pid)
    if tier == "thorough" and pid == "C02": add_suite(res, pid, out)
    return res

def C02(tier, seed):
    res = _parse_components("C02", tier, seed)
    res.coverage["rule"] = ("accepted inputs produced by walking TLC's recognizer graph: all accepting strings up to length L over three focused alphabets, a systematic IPv6/IPv4 family "
        "(zipper position x groups before/after x digits per group x embedded IPv4 x boundary octets), scheme-vs-segment and host-vs-userinfo shapes decided late, component cross products, random walks; "
        "each real result (all entry points, both widths) is projected and compared by TLC with Components(in) and CompSpans(in). non-trivial = non-empty input; distinct by text")
    res.assumptions = ["TLC/SANY, CommunityModules", "RFC 3986 Appendix B split + host classification by the Appendix A matcher (spec/UriValue.tla)", "projection function of the harness (harness/vh.h Proj)"]
    return res

def C04(tier, seed):
    res = _parse_components("C04", tier, seed)
    res.coverage["rule"] = ("same accepted inputs as C02; for each: uriToString on the borrowed URI and after uriMakeOwner must equal Recompose(Components(in)) "
        "(the input, with an IPv6 literal in full lowercase form), and the re-parsed text must compare equal both ways. non-trivial = non-empty input; distinct by text")
    res.assumptions = ["TLC/SANY, CommunityModules", "spec/UriValue.tla Recompose = RFC 3986 section 5.3", "projection function of the harness"]
    return res

def C03(tier, seed):
    res = Result("C03", "exploration")
    out = rundir("C03")
    exe = vlib.build("asan")
    tbl = recognizer_table()
    n = "200000" if tier == "thorough" else "8000"
    h = vlib.run_harness(exe, ["parse_log", "--table", tbl, "--mode", "c03", "--n", n, "--seed", str(seed), "--tier", tier], out, "c03")
    res.violations += harness_crash_violations(h, "C03")
    res.add_stats(vlib.merge_stats(h["stats"]))
    res.violations += validate_stream(res, "Trace_Parse", out, "c03", "C03", also=("C01", "C02"))
    # the same stream on a build by the other compiler: whether a source-level read of *afterLast becomes a load is the code generator's
    # choice (clang hoists the bounds test above the load where gcc does not, and vice versa elsewhere) - the property speaks about the binary
    exe2 = vlib.build("plain")
    hg = vlib.run_harness(exe2, ["parse_log", "--table", tbl, "--mode", "c03", "--n", "40000" if tier == "thorough" else "1500", "--seed", str(seed), "--tier", tier], out, "c03gcc")
    res.violations += harness_crash_violations(hg, "C03")
    res.add_stats(vlib.merge_stats(hg["stats"]))
    res.violations += validate_stream(res, "Trace_Parse", out, "c03gcc", "C03", also=("C01", "C02"))
    # guard-page parses at volume: the native walker places every input flush against a PROT_NONE page
    h2 = vlib.run_harness(exe, ["parse_walk", "--table", tbl, "--only", "walks", "--walks", "2000000" if tier == "thorough" else "150000", "--seed", str(seed + 1), "--tier", tier], out, "walk", parts=vlib.NCPU)
    res.violations += [dict(v, prop="C03") for v in h2["violations"] if v.get("prop") == "C03"]
    res.violations += harness_crash_violations(h2, "C03")
    res.add_stats(vlib.merge_stats(h2["stats"]))
    # the out-of-memory half of the clause "on a syntax or out-of-memory failure nothing remains allocated": the parse sweep of the fault driver
    h3 = vlib.run_harness(exe, ["fault", "--only", "0", "--seed", str(seed), "--tier", tier], out, "c03fault")
    res.violations += harness_crash_violations(h3, "C03")
    res.add_stats(vlib.merge_stats(h3["stats"]))
    res.violations += validate_stream(res, "Trace_Fault", out, "c03fault", "C03", also=("C14",))
    res.coverage["rule"] = ("every prefix t[0..k) of a corpus of texts parsed as an explicit range (a) flush against a PROT_NONE page and (b) in the middle of a buffer followed by the rest of the text or by "
        "content that would extend the token (']', digits, hex, delimiters, 0xFF); parses with the k-th request of the supplied manager failing, for every k (ledger must be empty afterwards, in the SUPPLIED manager); TLC (Trace_Parse, Trace_Fault) requires the outcome to be the specification's outcome for the range alone, every reported span inside the input "
        "(or the placeholder), an empty ledger after failure and no release on repeated free; a read past the range is a fault event. non-trivial = every case; distinct by (buffer, k)")
    res.coverage["exhaustive"] = False
    res.assumptions = ["the over-read clause is decided by the execution environment (guard pages, ASan) making the access an event; the specification forbids the event", "TLC/SANY, CommunityModules"]
    return res

def C05(tier, seed):
    res = Result("C05", "model_checking")
    out = rundir("C05")
    exe = vlib.build("asan")
    tbl = recognizer_table()
    m = vlib.model_check("MC_Writer", cfg="MC_Writer_t.cfg" if tier == "thorough" else "MC_Writer.cfg", timeout=3000)
    res.add_model(m, "MC_Writer (append-by-piece bounded writer: never writes at index >= cap; final outcome satisfies the WriteOK contract)")
    h = vlib.run_harness(exe, ["tostring", "--table", tbl, "--seed", str(seed), "--tier", tier] + (["--n", "30000"] if tier == "thorough" else []), out, "tostr", timeout=3000)
    res.violations += harness_crash_violations(h, "C05")
    res.add_stats(vlib.merge_stats(h["stats"]))
    res.violations += validate_stream(res, "Trace_ToString", out, "tostr", "C05")
    res.coverage["rule"] = ("real URI objects (parsed from the component corpus, fully normalized, resolved against a base) x every capacity from -1 to required+2 x charsWritten NULL/non-NULL x both widths; "
        "each call is made twice: destination ending at a PROT_NONE page, and destination followed by logged canary cells; TLC checks the WriteOK contract against Recompose of the logged value. "
        "non-trivial = non-empty recomposed text; distinct by (origin, value, width)")
    res.assumptions = ["TLC/SANY, CommunityModules", "spec/UriWriter.tla contract; spec/UriValue.tla Recompose", "guard pages make an out-of-capacity write an event"]
    return res

# ------------------------------------------------------------------ the value algebra: C06, C08, C09, C11
ALG_ASSUME = ["TLC/SANY, CommunityModules", "spec/UriPath.tla, UriResolve.tla, UriNormalize.tla: RFC 3986 5.2/6.2.2 transcribed on values; cross-checked inside TLC against the literal text-level algorithms and the RFC example tables (RfcExamples.tla)",
              "harness projection; events carry the projected value of the real input objects (no cross-talk from the parser)"]
def _algebra(pid, tier, seed, modes, model_note, also=()):
    res = Result(pid, "model_checking")
    out = rundir(pid)
    exe = vlib.build("asan")
    m = vlib.model_check("MC_Algebra", cfg="MC_Algebra_t.cfg" if tier == "thorough" else "MC_Algebra.cfg", timeout=3000)
    res.add_model(m, "MC_Algebra (" + model_note + ")")
    m2 = vlib.model_check("MC_RfcExamples", workers=2)
    res.add_model(m2, "MC_RfcExamples (RFC 3986 5.4.1/5.4.2/6.2.2 tables hold for the value-level and the literal text-level formulation)")
    for mode, n_q, n_t in modes:
        h = vlib.run_harness(exe, ["algebra", "--mode", mode, "--n", str(n_t if tier == "thorough" else n_q), "--seed", str(seed), "--tier", tier], out, mode)
        res.violations += harness_crash_violations(h, pid)
        res.violations += [v for v in h["violations"] if v.get("prop") == pid]
        res.add_stats(vlib.merge_stats(h["stats"]))
        res.violations += validate_stream(res, "Trace_Algebra", out, mode, pid, also=also)
    if pid == "C06":
        # "default and custom memory manager": resolution inside histories, incl. calls one of whose requests fails (a reported success is
        # judged as a success) and produced objects as operands (chains)
        for mode, n_q, n_t in (("random", 300, 5000), ("chains", 300, 2000)):
            h = vlib.run_harness(exe, ["session", "--mode", mode, "--n", str(n_t if tier == "thorough" else n_q), "--seed", str(seed + 6), "--tier", tier], out, "c06" + mode, timeout=3000)
            res.violations += harness_crash_violations(h, pid)
            res.add_stats(vlib.merge_stats(h["stats"]))
            res.violations += validate_stream(res, "Trace_Session", out, "c06" + mode, pid)
    if tier == "thorough": add_suite(res, pid, out, also=also)
    res.assumptions = ALG_ASSUME
    return res

def C06(tier, seed):
    res = _algebra("C06", tier, seed, [("addbase", 90000, 500000)], "all (reference, base, option) of the component universe: target reads back as held, agrees with the literal RFC 5.2.2/5.2.3/5.2.4 text algorithm except the '//' guard and rootless dot-removal inputs, return code")
    res.coverage["rule"] = ("(reference, base, option) triples: the component-wise universe of spec/MC_Algebra (3 schemes x 3 authorities x abs x segment lists over {'', '.', '..', 'a', 'b:c', '%2e'} x query x fragment, against 18 bases incl. rootless, empty-path, empty-authority, user/port, IP hosts) "
        "plus random paths of up to 10 segments; three entry points, both widths; TLC compares the projected real target with ResolveT of the projected real inputs. non-trivial = reference non-empty and different from the base; distinct by (ref, base, option)")
    return res
def C08(tier, seed):
    res = _algebra("C08", tier, seed, [("normalize", 45000, 400000)], "normal form reads back as held, idempotent, mask locality and composition per component")
    res.coverage["rule"] = ("URI texts over component alphabets {a, A, %41, %7e, %7E, %3a, %3A, %2e, %2E, '.', '..', ''} with every host kind, x masks (quick: 13 incl. 0, single bits, all, bits beyond 63; thorough: all 64) x borrowed/owned x 3 entry points x both widths; "
        "each run also records the mask-required query before and after; TLC compares with Normalize(value, mask) and MaskOK. non-trivial = non-zero mask; distinct by (text, mask, ownership)")
    return res
def C09(tier, seed):
    res = _algebra("C09", tier, seed, [("c09", 40000, 300000), ("normalize", 12000, 100000)], "Normalize(Resolve(Normalize(R),B)) = Normalize(Resolve(R,B)) for all pairs without %2e segments (strict resolution); scheme/authority presence and path kind preserved")
    res.coverage["rule"] = ("(R, B) pairs of the MC_Algebra universe without percent-encoded dot segments, absolute bases: both pipelines are executed in the real library and TLC requires the two texts to be equal and equal to the specification's; "
        "plus Normalize events for the kind clause. non-trivial = R non-empty; distinct by (R, B)")
    return res
def C11(tier, seed):
    res = _algebra("C11", tier, seed, [("equals", 40000, 600000), ("addbase", 8000, 100000), ("normalize", 6000, 100000)], "every value produced by resolution/normalization is in the structure that parsing its text yields (so equal <=> same text)")
    # equality over histories: pairs of URIs that sessions of parse / resolve / create-reference / normalize / make-owner steps produced
    out = os.path.join(vlib.RUNROOT, "run", "C11")
    h = vlib.run_harness(vlib.build("asan"), ["session", "--mode", "random", "--n", "6000" if tier == "thorough" else "350", "--seed", str(seed + 11), "--tier", tier], out, "c11session", timeout=3000)
    res.violations += harness_crash_violations(h, "C11")
    res.add_stats(vlib.merge_stats(h["stats"]))
    res.violations += validate_stream(res, "Trace_Session", out, "c11session", "C11")
    res.coverage["rule"] = ("all ordered pairs of real URI objects from a pool of texts differing in exactly one component (incl. absent vs empty, '/a' vs 'a' with and without scheme, IP hosts equal by value / differing in the low bytes) plus objects produced by resolution and normalization; "
        "uriEqualsUri both ways against Equal of the projections and against equality of the real recomposed texts; arguments byte-snapshotted; resolution/normalization outputs must have the parsed structure. non-trivial = the two objects differ by origin; distinct by pair")
    return res

def C10(tier, seed):
    res = Result("C10", "model_checking")
    out = rundir("C10")
    exe = vlib.build("asan")
    m = vlib.model_check("MC_Relativize", cfg="MC_Relativize_t.cfg" if tier == "thorough" else "MC_Relativize.cfg", timeout=14400 if tier == "thorough" else 3000)   # (thorough: ~40 min on 16 idle cores, several times that on a loaded machine)
    res.add_model(m, "MC_Relativize (the relation RelativizeOK is never empty: the function RelativizeIdeal is in it for every (source, base, mode); the closed forms of 'a reference without scheme / with an absolute path can resolve to S' agree with a finite witness search; error codes)")
    h = vlib.run_harness(exe, ["algebra", "--mode", "removebase", "--n", "400000" if tier == "thorough" else "30000", "--seed", str(seed), "--tier", tier], out, "removebase")
    res.violations += harness_crash_violations(h, "C10")
    res.add_stats(vlib.merge_stats(h["stats"]))
    res.violations += validate_stream(res, "Trace_Algebra", out, "removebase", "C10")
    # reference creation on operands that earlier operations PRODUCED (merged paths, normalized, owned): systematic chains
    h = vlib.run_harness(exe, ["session", "--mode", "chains", "--n", "2000" if tier == "thorough" else "450", "--seed", str(seed + 5), "--tier", tier], out, "c10chains", timeout=3000)
    res.violations += harness_crash_violations(h, "C10")
    res.add_stats(vlib.merge_stats(h["stats"]))
    res.violations += validate_stream(res, "Trace_Session", out, "c10chains", "C10")
    if tier == "thorough": add_suite(res, "C10", out)
    res.coverage["rule"] = ("all ordered pairs (source, base) of a universe of absolute URIs: 2 schemes x 7 (thorough 17) authorities incl. user info / port / empty host / IPv4 / IPv6 / IPvFuture differing in one part x 15 (thorough 27) paths with every overlap pattern "
        "(prefix, equal, trailing empty segments, differing in the last segment only, ':' in the first segment, empty first segment, rootless, dot segments) x query on either side, both modes, both widths, default and recording manager; "
        "plus random paths sharing prefixes of random length and non-absolute operands. TLC evaluates the relation RelativizeOK on the projected real (source, base, reference): resolves back (specification's resolution), omission of scheme/authority, domain-root form, stability; "
        "the library's own uriAddBaseUri of the reference is compared too. non-trivial = source text differs from base text; distinct by (source, base, mode)")
    res.assumptions = ALG_ASSUME + ["spec/UriRelativize.tla: the property is a relation; any reference inside it is accepted"]
    return res

# ------------------------------------------------------------------ the session machine: C07, C12
SESSION_ASSUME = ["TLC/SANY, CommunityModules", "spec/UriSession.tla (object-level machine: slots, buffers, what each URI's ranges point into) on top of the value algebra",
                  "harness projection; caller buffers are separate read-only mappings ending at a PROT_NONE page, released buffers become inaccessible (a bad access is an event the specification has no action for)"]
def _session(res, pid, tier, seed, out, also=()):
    exe = vlib.build("asan")
    depth = {"quick": 6, "thorough": 8}[tier]
    scripts = os.path.join(out, "scripts.ndjson")
    if os.path.exists(scripts): os.remove(scripts)
    import concurrent.futures
    def one(ts):
        cfg = os.path.join(out, "MC_Session_%s.cfg" % ts)
        open(cfg, "w").write(open(os.path.join(SPEC, "MC_Session_%s.cfg" % ts)).read().replace("MaxDepth = 6", "MaxDepth = %d" % depth))
        # one worker per model: the emitted lines must not interleave; the three models run side by side, each writing its own file
        return ts, vlib.model_check("MC_Session", cfg=cfg, env={"EMIT": scripts + "." + ts}, timeout=3000, workers=1)
    with concurrent.futures.ThreadPoolExecutor(3) as ex:
        for ts, m in ex.map(one, ("paths", "auth", "rel")):
            res.add_model(m, "MC_Session/%s (all histories of the session machine to depth %d over 3 slots, 2 buffers, 4 texts, masks {0, PATH, ALL}: OwnerIndependent, DepsAlive, AllStable, ScribbleLocal, OwnKeepsValue)" % (ts, depth))
    with open(scripts, "w") as f:
        for ts in ("paths", "auth", "rel"):
            if os.path.exists(scripts + "." + ts): f.write(open(scripts + "." + ts).read())
    nscripts = sum(1 for _ in open(scripts)) if os.path.exists(scripts) else 0
    if nscripts == 0: raise Infra("MC_Session emitted no behaviours")
    # vacuity guard (TLC's own -coverage is unusable here: with the recursive grammar operators it exhausts the heap):
    # every action of the machine must occur in the behaviours TLC enumerated
    ops = {}
    for l in open(scripts):
        v = json.loads(l)
        if isinstance(v, str): v = json.loads(v)
        for a in v["script"]: ops[a["op"]] = ops.get(a["op"], 0) + 1
    missing = [o for o in ("buf", "parse", "own", "norm", "add", "rem", "free", "scribble") if not ops.get(o)]
    if missing: raise Infra("MC_Session never took action(s) %s: the model is vacuous for them" % missing)
    res.coverage["actions_in_enumerated_behaviours"] = ops
    # spec -> code: every behaviour TLC found is replayed through the real library, the final state compared natively, the events validated again
    h = vlib.run_harness(exe, ["session", "--mode", "script", "--script", scripts, "--seed", str(seed), "--tier", tier], out, "sscript", timeout=3000)
    res.violations += harness_crash_violations(h, pid)
    res.violations += [dict(v, prop=pid) for v in h["violations"]]
    res.add_stats(vlib.merge_stats(h["stats"]))
    res.violations += validate_stream(res, "Trace_Session", out, "sscript", pid, also=also)
    res.coverage["behaviours_replayed"] = nscripts
    # code -> spec: long random sessions
    h = vlib.run_harness(exe, ["session", "--mode", "random", "--n", "12000" if tier == "thorough" else "700", "--seed", str(seed), "--tier", tier], out, "srandom", timeout=3000)
    res.violations += harness_crash_violations(h, pid)
    res.add_stats(vlib.merge_stats(h["stats"]))
    res.violations += validate_stream(res, "Trace_Session", out, "srandom", pid, also=also)
    # systematic histories: the output of every producing operation handed to every consuming operation in every operand position
    h = vlib.run_harness(exe, ["session", "--mode", "chains", "--n", "2000" if tier == "thorough" else "450", "--seed", str(seed), "--tier", tier], out, "schains", timeout=3000)
    res.violations += harness_crash_violations(h, pid)
    res.add_stats(vlib.merge_stats(h["stats"]))
    res.violations += validate_stream(res, "Trace_Session", out, "schains", pid, also=also)
    res.violations += [dict(prop=pid, why="harness/driver disagreement with the session machine: " + v["why"], **{k: v[k] for k in v if k not in ("prop", "why")}) for v in []]

def C07(tier, seed):
    res = Result("C07", "model_checking")
    out = rundir("C07")
    _session(res, "C07", tier, seed, out, also=("C11",))
    exe = vlib.build("asan")
    for mode, n_q, n_t in (("addbase", 8000, 150000), ("normalize", 6000, 150000), ("removebase", 8000, 150000)):
        h = vlib.run_harness(exe, ["algebra", "--mode", mode, "--n", str(n_t if tier == "thorough" else n_q), "--seed", str(seed + 7), "--tier", tier], out, mode)
        res.violations += harness_crash_violations(h, "C07")
        res.add_stats(vlib.merge_stats(h["stats"]))
        res.violations += validate_stream(res, "Trace_Algebra", out, mode, "C07")
    res.coverage["rule"] = ("(1) every behaviour of the session machine that TLC enumerates (all sequences of buffer creation, parse, make-owner, normalize with masks {0, PATH, ALL}, resolve, create-reference, free, scribble up to the depth bound over three families of texts chosen so that dot removal uncovers '//', a ':' first segment or an empty first segment) is replayed through the real library and its final state compared; "
        "(2) random sessions of 20 (thorough 30) steps over 5 slots and 3 buffers with texts of every host kind, percent-encodings, dot segments; after every step every usable URI is projected, recomposed with uriToString and re-parsed with uriParseSingleUri, and TLC (Trace_Session) requires the re-read scheme, authority parts, path text, query and fragment to be those held, and the structure to be well formed; "
        "(3) single-call universes of resolution, normalization and reference creation (Trace_Algebra, C07 clauses). non-trivial = every episode / case; distinct by script or (inputs, options)")
    res.assumptions = SESSION_ASSUME
    return res

def C12(tier, seed):
    res = Result("C12", "model_checking")
    out = rundir("C12")
    _session(res, "C12", tier, seed, out)
    exe = vlib.build("asan")
    for mode, n_q, n_t in (("addbase", 5000, 60000), ("equals", 8000, 100000), ("normalize", 5000, 100000), ("removebase", 5000, 60000)):
        h = vlib.run_harness(exe, ["algebra", "--mode", mode, "--n", str(n_t if tier == "thorough" else n_q), "--seed", str(seed + 12), "--tier", tier], out, mode)
        res.violations += harness_crash_violations(h, "C12")
        res.add_stats(vlib.merge_stats(h["stats"]))
        res.violations += validate_stream(res, "Trace_Algebra", out, mode, "C12")
    res.coverage["rule"] = ("sessions as for C07; the C12 clauses: after uriMakeOwner / uriNormalizeSyntaxEx with a non-zero mask the source buffer is overwritten with 0xEE, overwritten with another URI text, or made inaccessible (released), and every URI the machine still considers usable is observed again: "
        "components, owner flag and recomposed text must be what the machine holds (a forgotten component shows as changed text or as a fault); every buffer is mapped read-only during every library call (a write into caller text is a fault); "
        "the projected operands of resolve / create-reference / equals / mask query are compared before and after the call, and byte snapshots of the structures in the single-call streams. non-trivial = every episode / case")
    res.assumptions = SESSION_ASSUME
    return res

def C19(tier, seed):
    res = Result("C19", "exploration")
    out = rundir("C19")
    exe = vlib.build("asan")
    tbl = recognizer_table()
    T = tier == "thorough"
    runs = [("parse_log", ["--table", tbl, "--mode", "comp", "--n", "60000" if T else "3000"]), ("parse_log", ["--table", tbl, "--mode", "c03", "--n", "20000" if T else "1500"]),
            ("tostring", ["--table", tbl, "--n", "2000" if T else "150"]),
            ("algebra", ["--mode", "addbase", "--n", "120000" if T else "7000"]), ("algebra", ["--mode", "normalize", "--n", "120000" if T else "6000"]),
            ("algebra", ["--mode", "removebase", "--n", "120000" if T else "7000"]), ("algebra", ["--mode", "equals", "--n", "150000" if T else "9000"]), ("algebra", ["--mode", "c09", "--n", "60000" if T else "4000"]),
            ("escape", ["--n", "300000" if T else "20000"]), ("query", ["--n", "150000" if T else "12000"]), ("file", ["--n", "200000" if T else "15000"]),
            ("session", ["--mode", "random", "--n", "6000" if T else "300"])]
    per = {}
    for i, (drv, args) in enumerate(runs):
        stream = "pair%d_%s" % (i, drv)
        h = vlib.run_harness(exe, [drv, "--pair", "1", "--seed", str(seed), "--tier", tier] + args, out, stream, timeout=3000)
        res.violations += harness_crash_violations(h, "C19")
        res.add_stats(vlib.merge_stats(h["stats"]))
        before = res.coverage.get("events_validated", 0)
        res.violations += validate_stream(res, "Trace_Pair", out, stream, "C19")
        per[drv + " " + " ".join(a for a in args if not a.startswith("/"))] = res.coverage.get("events_validated", 0) - before
    if any(v == 0 for v in per.values()) and not res.violations: raise Infra("a pair stream is empty: %s" % per)
    res.coverage["pairs_by_driver"] = per
    res.coverage["rule"] = ("every driver of the other checks is a template over the character type; in pair mode each case is run for char AND wchar_t and the i-th recorded event of one run is put next to the i-th of the other "
        "(texts as code points, sizes and offsets in characters, output buffers ending at a PROT_NONE page in BYTES so that a size computed in bytes instead of characters overruns or under-fills): parse (6 entry points, prefixes, mid-buffer ranges), "
        "recompose for every capacity, resolve, create reference, normalize + mask query, compare, escape / unescape, query compose / dissect, the four filename conversions, and whole sessions incl. make-owner; "
        "TLC (Trace_Pair) requires the two records to be identical apart from the width tag and the allocator logs. non-trivial = non-empty input; distinct by case")
    res.assumptions = ["TLC/SANY, CommunityModules", "that each variant is also what the specification says is decided by the property-specific checks on the same events (both widths alternate there)", "guard pages / ASan make an over-run an event"]
    return res

# ------------------------------------------------------------------ the repository's own suite, traced (growth: used by the thorough tiers)
def suite_trace(out):
    """Build the repository's test runner, run it with the LD_PRELOAD tracer, return the list of trace shards (events of the suite's own executions)."""
    d = os.path.join(out, "suite"); shutil.rmtree(d, ignore_errors=True); os.makedirs(d)
    # the repository's own runner compiles the library sources into itself, which no tracer can interpose; the same test sources are
    # therefore linked against the library as a shared object (variant `shared`, built from the same tree)
    sdir = os.path.dirname(vlib.build("shared"))
    tests = " ".join(sorted(glob.glob(os.path.join(vlib.REPO, "test", "*.cpp"))))
    r = vlib.sh("g++ -std=c++14 -O0 -I%s/include -I%s -I%s/src -I/root/miniconda/include %s -o %s/testrunner -L%s -luriparser -L/root/miniconda/lib -lgtest -lgtest_main -lpthread -Wl,-rpath,%s -Wl,-rpath,/root/miniconda/lib"
                % (vlib.REPO, sdir, vlib.REPO, tests, d, sdir, sdir))
    if r.returncode != 0 or not os.path.exists(d + "/testrunner"): raise Infra("could not build the repository's tests against the shared library:\n" + r.stdout[-2000:])
    r = vlib.sh("g++ -std=c++17 -O1 -g -shared -fPIC -I%s/include -o %s/libvhshim.so %s/harness/shim/shim.cpp -ldl" % (vlib.REPO, d, VERIF))
    if r.returncode != 0: raise Infra("could not build the tracer:\n" + r.stdout[-2000:])
    trace = d + "/suite.ndjson"
    env = dict(os.environ, LD_PRELOAD=d + "/libvhshim.so", VH_SHIM_OUT=trace)
    r = vlib.sh([d + "/testrunner"], env=env, timeout=600)
    if not os.path.exists(trace): raise Infra("the traced suite wrote no events:\n" + r.stdout[-1500:])
    lines = [l for l in open(trace) if l.strip()]
    shards = []
    for i in range(8):
        p = os.path.join(d, "suite.%d.ndjson" % i); open(p, "w").writelines(lines[i::8]); shards.append(p)
    return shards, len(lines), ("FAILED" not in r.stdout)

def add_suite(res, pid, out, also=()):
    shards, n, passed = suite_trace(out)
    cnt, rejects = vlib.validate("Trace_Suite", shards)
    mine = []
    for r in rejects:
        fails = [f for f in r["fails"] if f["p"] == pid or f["p"] in also]
        if fails:
            devs = set(f.get("dev", "") for f in fails)
            mine.append(dict(prop=pid, why="(repository's own test suite, traced) " + "; ".join(f["why"] for f in fails), dev=devs.pop() if len(devs) == 1 else "", event=r["ev"], trace=r["trace"], line=r["line"], spec="Trace_Suite"))
    res.violations += mine
    res.coverage["suite_events_validated"] = cnt
    res.coverage["events_validated"] = res.coverage.get("events_validated", 0) + cnt
    res.coverage["traces_validated_against_impl"] = res.coverage.get("traces_validated_against_impl", 0) + cnt - len(rejects)

# ------------------------------------------------------------------ C20
def writable_symbol_audit(so):
    """OBJECT symbols of the built library that live in a writable, non-RELRO section.  Returns (listing, offenders)."""
    sec = {}
    for l in vlib.sh(["readelf", "-SW", so]).stdout.splitlines():
        m = __import__("re").match(r"\s*\[\s*(\d+)\]\s+(\S+)\s+(\S+)\s+[0-9a-f]+\s+[0-9a-f]+\s+[0-9a-f]+\s+\S+\s+(\S*)", l)
        if m: sec[m.group(1)] = (m.group(2), m.group(4))
    listing, offenders = [], []
    allow = {"defaultMemoryManager": "the default manager's table of function pointers: initialised statically, only ever read",
             "completed.0": "C runtime (crtbegin) flag, not library code"}
    for l in vlib.sh(["readelf", "-sW", "--dyn-syms", so]).stdout.splitlines() + vlib.sh(["readelf", "-sW", so]).stdout.splitlines():
        f = l.split()
        if len(f) < 8 or f[3] != "OBJECT" or not f[6].isdigit(): continue
        name, flags = sec.get(f[6], ("?", ""))
        # data of the library itself: .data / .bss / thread-local data; not the linker's own tables (.got, .dynamic, .init_array, ...) and not RELRO constants
        if "W" not in flags or name.startswith(".data.rel.ro") or not (name in (".data", ".bss", ".tdata", ".tbss") or name.startswith(".data.") or name.startswith(".bss.")): continue
        if f[2] in ("0", "0x0"): continue
        sym = f[7].split("@")[0]
        rec = "%s (%s bytes, %s)" % (sym, f[2], name)
        if rec in listing: continue
        listing.append(rec)
        if sym not in allow: offenders.append(rec)
    return listing, offenders

def C20(tier, seed):
    res = Result("C20", "model_checking")
    out = rundir("C20")
    T = tier == "thorough"
    m = vlib.model_check("MC_Threads", cfg="MC_Threads_t.cfg" if T else "MC_Threads.cfg", timeout=3000)
    res.add_model(m, "MC_Threads (all interleavings of the read/write programs of %s: NoRace, ResultsSequential, NoGlobalWrite, NoInputWrite)" % ("2 threads x up to 2 calls" if T else "3 threads x 1 call drawn from 11 call kinds"))
    # non-vacuity: with each feared deviation switched on TLC must find the racing interleaving
    devs = ["ShallowCopyPath", "StaticScratch", "MaskQueryInPlace", "CachedDefaultManager"]
    found = {}
    for d in devs:
        r = vlib.tlc("MC_Threads", "MC_Threads_dev_%s.cfg" % d, timeout=1200)
        found[d] = "is violated" in r["out"]
        if not found[d]: raise Infra("MC_Threads with deviation %s did not produce a race: the model cannot see what it is meant to see\n%s" % (d, r["out"][-1500:]))
    res.coverage["deviation_models_violate"] = found
    # conformance 1: shared inputs read-only, results equal the call run alone (ASan build), validated by TLC
    exe = vlib.build("asan")
    h = vlib.run_harness(exe, ["threads", "--threads", "12", "--n", "30000" if T else "2500", "--seed", str(seed), "--tier", tier], out, "threads", timeout=3000)
    res.violations += harness_crash_violations(h, "C20"); res.violations += [v for v in h["violations"] if v.get("prop") == "C20"]
    res.add_stats(vlib.merge_stats(h["stats"]))
    res.violations += validate_stream(res, "Trace_Threads", out, "threads", "C20")
    # conformance 2: the same workload under ThreadSanitizer (a data race is an abort)
    exe_t = vlib.build("tsan")
    h = vlib.run_harness(exe_t, ["threads", "--threads", "12", "--n", "60000" if T else "4000", "--log", "0", "--seed", str(seed + 1), "--tier", tier], out, "tsan", timeout=3000,
                         extra_env={"TSAN_OPTIONS": "halt_on_error=1:exitcode=66:report_signal_unsafe=0"})
    res.violations += harness_crash_violations(h, "C20"); res.violations += [v for v in h["violations"] if v.get("prop") == "C20"]
    res.add_stats(vlib.merge_stats(h["stats"]))
    # conformance 3: the library's own writable segment mapped read-only while every call of the table runs
    exe_s = vlib.build("shared")
    h = vlib.run_harness(exe_s, ["globals", "--seed", str(seed), "--tier", tier], out, "globals", timeout=900)
    res.violations += harness_crash_violations(h, "C20"); res.violations += [v for v in h["violations"] if v.get("prop") == "C20"]
    res.add_stats(vlib.merge_stats(h["stats"]))
    listing, offenders = writable_symbol_audit(os.path.join(os.path.dirname(exe_s), "liburiparser.so"))
    res.coverage["writable_library_symbols"] = listing
    for o in offenders:
        res.violations.append(dict(prop="C20", why="the library has writable global or static data: " + o, case=o))
    res.coverage["rule"] = ("model: every interleaving of the micro-step programs (reads / writes of shared inputs, library globals, private objects) of the call kinds; "
        "conformance: a table of ~2,000 distinct calls over all function families (both widths) on shared inputs held in a read-only arena is evaluated by one thread, then by 12 threads at once in seeded random order (results validated by TLC against the result of the call run alone; arena compared byte for byte), "
        "again under ThreadSanitizer, and once with the writable segment of liburiparser.so mapped read-only; symbols in writable non-RELRO sections are listed and must be the allow-listed manager table. non-trivial = every call; distinct by (function, inputs, width)")
    res.assumptions = ["TLC/SANY", "spec/UriThreads.tla: the footprints (which objects a call may read / write) were read from the code; the conformance runs observe that real calls stay inside them (read-only mappings make any write to a shared input or a library global a fault on every schedule)",
                       "ThreadSanitizer for the data-race clause on the schedules that happened; libc malloc is thread-safe"]
    return res

# the thorough tier of the single-driver checks: as deep as a run of some minutes allows
THOROUGH_EXTRA = {"escape": ["--n", "3000000"], "file": ["--n", "2000000"], "memory": ["--n", "150000"], "fault": ["--uris", "400"], "ledger": ["--uris", "2500"]}
def _simple(pid, tier, seed, model, model_cfg_q, model_cfg_t, model_note, driver, trace, rule, assumptions, level="model_checking", extra_args=(), also=()):
    res = Result(pid, level)
    if tier == "thorough": extra_args = list(extra_args) + THOROUGH_EXTRA.get(driver, [])
    out = rundir(pid)
    exe = vlib.build("asan")
    if model:
        m = vlib.model_check(model, cfg=(model_cfg_t if tier == "thorough" else model_cfg_q), timeout=3000)
        res.add_model(m, model + " (" + model_note + ")")
    h = vlib.run_harness(exe, [driver, "--seed", str(seed), "--tier", tier] + list(extra_args), out, driver, timeout=3000 if tier == "thorough" else 900)
    res.violations += harness_crash_violations(h, pid)
    res.violations += [v for v in h["violations"] if v.get("prop") == pid]
    res.add_stats(vlib.merge_stats(h["stats"]))
    res.violations += validate_stream(res, trace, out, driver, pid, also=also)
    res.coverage["rule"] = rule
    res.assumptions = assumptions
    return res

def C16(tier, seed):
    return _simple("C16", tier, seed, "MC_Escape", "MC_Escape.cfg", "MC_Escape_t.cfg",
        "escape transducer per transition (<=3/<=6 characters, alphabet) and on all strings up to the bound; round trip Unescape(Escape(s)) = s / NormBreaks(s); in-place unescape machine with explicit cursors: w <= r, no write past the old terminator, result = function view",
        "escape", "Trace_Escape",
        "all strings up to length 3 (thorough 4) over 16 class representatives, every code point 1..255 alone and in 8 contexts (after CR, before LF, after '%', inside and after a triplet), malformed/truncated '%' sequences, random strings up to 60; "
        "escape x both flags x explicit-range/NUL-terminated, unescape x plus-to-space x 4 break modes, both widths; output buffers of exactly 3n+1 / 6n+1 / n+1 characters ending at a PROT_NONE page. non-trivial = non-empty input; distinct by input text",
        ["TLC/SANY, CommunityModules", "spec/UriEscape.tla", "guard pages make an out-of-bounds write an event"])

def C17(tier, seed):
    return _simple("C17", tier, seed, "MC_Query", "MC_Query.cfg", "MC_Query_t.cfg",
        "lists of up to 2 (thorough 3) items over {a & = + SP % CR LF 0xff}: Dissect(Compose(l)) = l minus vanishing items, Required >= Len(Compose), legal query characters, scaled INT_MAX refusal",
        "query", "Trace_Query",
        "lists: every single item with key/value over an 11-character alphabet up to length 2 (value NULL / empty / text), zero-slack lists whose every character expands to the worst case, random lists of 1..4 items with bytes 1..255; x both compose flags; "
        "chars-required, composing with every capacity from -1 to required+2 (guard-page and canary layouts, charsWritten NULL or not), the malloc variants (default and recording manager) dissected again; "
        "dissection of every arrangement of & = a %41 + %0D%0A % up to length 4 (thorough 6) x plus-to-space x break modes; key+value of 2*10^8 characters for the INT_MAX clause (UBSan: a signed overflow is a crash). "
        "non-trivial = non-empty list / text; distinct by (list, flags) or (text, flag)",
        ["TLC/SANY, CommunityModules", "spec/UriQuery.tla (relation: between the real length and the worst case either outcome of composing is allowed)", "INT_MAX arithmetic is model-checked on a scaled constant and exercised at real scale for two giant inputs only"],
        extra_args=["--n", "300000" if tier == "thorough" else "30000"])

def C18(tier, seed):
    return _simple("C18", tier, seed, "MC_File", "MC_File.cfg", "MC_File_t.cfg",
        "all names up to length 3 (thorough 4) over {a C : \\ / % SP # ? [ . 0x01 0xff} in the documented domain, Unix and Windows: round trip, validity by the RFC 3986 matcher, form of the prefix, documented sizes; short input forms",
        "file", "Trace_File",
        "names: all strings up to length 4 (thorough 5) over 13 characters, every code point 1..255 in each position class (drive letter, UNC server, first / later / last segment, trailing separator), named shapes, random names up to 40 characters with random separators; "
        "Unix and Windows directions, both widths; destination buffers of exactly 7+3n+1 / 8+3n+1 and len(uri)+1 characters ending at a PROT_NONE page; the produced URI string goes through the real parser and the specification's matcher; "
        "outside the documented domain (Windows names with '/', 'X:' followed by more first-segment text, UNC with empty server) only conformance to the transcribed conversion is required, not the round trip. non-trivial = non-empty name; distinct by (name, direction)",
        ["TLC/SANY, CommunityModules", "spec/UriFile.tla", "guard pages make an out-of-bounds write an event"])

def C15(tier, seed):
    return _simple("C15", tier, seed, "MC_Memory", "MC_Memory.cfg", "MC_Memory_t.cfg",
        "design of the completed manager (size header, realloc by malloc+copy+free, overflow-checked products) over a backend failing at any call, on a scaled word: live blocks disjoint and backed by a large-enough backend block, no backend leak, failure leaves everything intact, calloc zeroed, overflow refused with ENOMEM, realloc conventions",
        "memory", "Trace_Memory",
        "random call sequences (3..14 calls, thorough ..30) of malloc/calloc/realloc/reallocarray/free on the real completed manager over an instrumented backend, sizes from {0,1,2,3,8,24,100,4096, SIZE_MAX-8, SIZE_MAX-7, SIZE_MAX-1, SIZE_MAX, SIZE_MAX/2+1}, factor pairs covering overflow with a small factor and with 2^32-sized factors, "
        "backend failure plans (none / one / several positions); every block is pattern-filled over its full size, prefixes and zeroing are checked, canaries surround backend blocks; each episode ends by freeing everything. The stateful trace spec carries live user and backend blocks through the episode. "
        "non-trivial = every episode; distinct by (call/return sequence, failure plan)",
        ["TLC/SANY, CommunityModules", "spec/UriMemory.tla (scaled-word design model) and Trace_Memory.tla (contract on recorded calls)", "content observations (prefix, zeroing, full-size usability, canaries) are made by the harness and ASan"])

def C14(tier, seed):
    res = _simple("C14", tier, seed, "MC_Ledger", "MC_Ledger.cfg", "MC_Ledger_t.cfg",
        "the ledger automaton: any interleaving of requests, failures and releases; a history is clean iff every handed-out block is released exactly once",
        "fault", "Trace_Fault",
        "for every input shape of every operation (parse; resolve and create-reference against several bases and both option values; normalize borrowed and owned with single-bit / combined / all masks; make-owner; dissect; compose-malloc) the k-th request through the supplied manager fails, "
        "for EVERY k from 1 to (requests of the fault-free run)+1, in fail-once and fail-from-k-on modes, both widths; one event per run carrying the allocator log of set-up, call and the caller's ordinary cleanup; TLC folds it through the ledger automaton and requires the out-of-memory code exactly when a request failed. "
        "Released blocks are poisoned and really freed (ASan: touching one is a crash). non-trivial = the failure position lies inside the call's allocation sequence; distinct by (operation, inputs, k, mode)",
        ["TLC/SANY, CommunityModules", "spec/UriLedger.tla", "recording/fault-injecting manager of the harness; ASan for use-after-free"], level="fault_enumeration")
    # failures inside histories: random sessions in which a quarter of the allocating calls run with a failing request (Trace_Session:
    # out-of-memory code exactly when a request failed, the other URIs of the session unchanged and usable, ledger balanced at the end)
    out = os.path.join(vlib.RUNROOT, "run", "C14")
    h = vlib.run_harness(vlib.build("asan"), ["session", "--mode", "random", "--n", "6000" if tier == "thorough" else "400", "--seed", str(seed + 3), "--tier", tier], out, "c14session", timeout=3000)
    res.violations += harness_crash_violations(h, "C14")
    res.add_stats(vlib.merge_stats(h["stats"]))
    res.violations += validate_stream(res, "Trace_Session", out, "c14session", "C14", also=("C13",))
    # the systematic fault family: every allocating operation x every kind of host on either operand x every failing request
    h = vlib.run_harness(vlib.build("asan"), ["session", "--mode", "chains", "--n", "1500" if tier == "thorough" else "60", "--seed", str(seed + 4), "--tier", tier], out, "c14chains", timeout=3000)
    res.violations += harness_crash_violations(h, "C14")
    res.add_stats(vlib.merge_stats(h["stats"]))
    res.violations += validate_stream(res, "Trace_Session", out, "c14chains", "C14", also=("C13",))
    res.coverage["exhaustive"] = True
    res.coverage["exhaustive_note"] = "every failure position of every listed (operation, input) shape, both modes; the list of shapes is finite and fixed per tier"
    return res

def C13(tier, seed):
    res = _C13(tier, seed)
    # "released ... with exactly the pointer it returned", "no block is outstanding" also hold on the failure paths: the fault sweep's ledger clauses
    out = os.path.join(vlib.RUNROOT, "run", "C13")
    h = vlib.run_harness(vlib.build("asan"), ["fault", "--seed", str(seed), "--tier", tier], out, "c13fault", timeout=3000)
    res.violations += harness_crash_violations(h, "C13")
    res.add_stats(vlib.merge_stats(h["stats"]))
    res.violations += validate_stream(res, "Trace_Fault", out, "c13fault", "C13", also=("C14",))
    return res

def _C13(tier, seed):
    return _simple("C13", tier, seed, "MC_Ledger", "MC_Ledger.cfg", "MC_Ledger_t.cfg",
        "the ledger automaton over all short histories: balanced exactly when every handed-out block is released once and nothing else is released",
        "ledger", "Trace_Ledger",
        "every function that takes a memory manager (parse, resolve, create-reference, normalize with 10 masks borrowed and owned, make-owner, dissect, compose-malloc, the matching release calls) on a corpus of URIs of every host kind x three manager kinds: "
        "a recording manager (libc allocation from inside the call is itself an event via -Wl,--wrap: nothing may bypass the manager), the default manager (wrapped libc is the ledger), a manager completed by uriCompleteMemoryManager over a recording malloc/free backend; "
        "freeing URI members twice more must release nothing; all 31 incomplete managers x the 9 manager-taking functions must be rejected with the dedicated code before anything is allocated. non-trivial = every case; distinct by (operation, inputs, mask, manager kind)",
        ["TLC/SANY, CommunityModules", "spec/UriLedger.tla", "recording manager and libc interposition of the harness"])

CHECKS = {"C13": C13, "C14": C14, "C15": C15, "C16": C16, "C17": C17, "C18": C18, "C01": C01, "C02": C02, "C03": C03, "C04": C04, "C05": C05, "C06": C06, "C08": C08, "C07": C07, "C09": C09, "C10": C10, "C11": C11, "C12": C12, "C19": C19, "C20": C20}

# ------------------------------------------------------------------ known findings triage, replay
def triage(pid, violations, kf):
    """A violation is a known finding only if a listed entry of this property matches it exactly (same witness class as recorded
    in known_findings.json: the deviation name the trace spec attached). Nothing is added at run time."""
    listed = [f for f in kf.get("findings", []) if f["property"] == pid]
    new, known, seen = [], [], set()
    for v in violations:
        dev = v.get("dev", "")
        hit = next((f for f in listed if dev and f["deviation"] == dev), None)
        if hit:
            if hit["id"] not in seen:
                seen.add(hit["id"]); known.append(dict(id=hit["id"], text="%s: %s witness=%s" % (hit["deviation"], hit["what"], json.dumps(hit.get("witness")))))
        else:
            new.append(v)
    return new, known

def replay(pid, path):
    v = json.load(open(path))
    print(json.dumps(v, indent=1)[:4000])
    if "event" in v and "spec" in v:
        d = rundir("replay")
        t = os.path.join(d, "replay.0.ndjson"); open(t, "w").write(json.dumps(v["event"]) + "\n")
        n, rej = vlib.validate(v["spec"], [t])
        print("re-validated recorded event against %s: %s" % (v["spec"], "REJECTED " + json.dumps(rej[0]["fails"]) if rej else "accepted"))
        return 1 if rej else 0
    # violations found natively (graph walker, crash of the driver) carry the case, not an event: re-run the check that produced them
    tier = os.environ.get("VERIF_TIER", "quick")
    print("no recorded event in this replay file: re-running check %s (%s tier) against the current tree" % (pid, tier))
    res = CHECKS[pid](tier, int(os.environ.get("VERIF_SEED", "1")))
    new, known = triage(pid, res.violations, vlib.known_findings())
    for v in new[:5]: print("still violated:", str(v.get("why", ""))[:300])
    return 1 if new else 0
