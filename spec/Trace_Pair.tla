----------------------------- MODULE Trace_Pair -----------------------------
(* C19: the char and the wchar_t API are two refinements of ONE specification  *)
(* over code points.  Every driver of the harness is a template instantiated   *)
(* for both character types; in pair mode it runs BOTH instantiations on the   *)
(* same case and records the i-th event of the narrow run next to the i-th     *)
(* event of the wide run (texts as code points, sizes in characters).  The     *)
(* specification's statement is W(widen x) = widen(A x): the two records must  *)
(* be the same record, the width tag and the allocator logs (whose block sizes *)
(* are in bytes) apart.  That each side also is what the specification says is  *)
(* decided by the property-specific trace specifications on the same events.   *)
EXTENDS TraceCore, FiniteSets

\* not part of the observable the property names: the width tag, allocation logs (sizes in bytes), diagnostic strings
Dropped == {"w", "mem", "refree", "phases", "libc"}
Keys(r) == DOMAIN r \ Dropped
Differ(a, b) == { k \in Keys(a) \cup Keys(b) : k \notin DOMAIN a \/ k \notin DOMAIN b \/ a[k] # b[k] }

VPair(x) ==
  IF "a" \notin DOMAIN x \/ "w" \notin DOMAIN x
  THEN Fail("C19", "one character type recorded an event the other did not")
  ELSE LET d == Differ(x.a, x.w) IN
       FailX(d # {}, "C19", "the wide-character function does not return what the narrow one returns on the same input", [fields |-> d])

\* (events that exist for one character type only - the giant query sizes - are not pairs and are skipped)
V(x) == IF x.e = "Pair" THEN VPair(x) ELSE IF x.e \in {"Reset", "ComposeReqGiant", "ComposeMallocGiant", "ComposeGiantWrite", "ComposeReqBoundary", "ComposeMallocBoundary"} THEN <<>> ELSE Fail("C19", "unknown event")
TNext == TStep(V)
=============================================================================
