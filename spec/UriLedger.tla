----------------------------- MODULE UriLedger -----------------------------
(* The allocation ledger: the abstract state of one memory manager as seen  *)
(* through its call log.  A log entry is <<kind, id, size, ok, oldid>> with *)
(* kind in "m" malloc, "c" calloc, "r" realloc, "a" reallocarray, "f" free; *)
(* id: block number handed out (0: NULL / failed request, -1: a pointer the *)
(* manager never handed out or that was already released).                  *)
EXTENDS Naturals, Integers, Sequences, FiniteSets

LedgerInit == [live |-> {}, bad |-> FALSE, failed |-> 0]

LedgerStep(L, ev) ==
  LET kind == ev[1]  id == ev[2]  ok == ev[4]  old == ev[5] IN
  IF kind = "f" THEN
       IF id = 0 THEN L                                              \* free(NULL)
       ELSE IF id \in L.live THEN [L EXCEPT !.live = @ \ {id}]
       ELSE [L EXCEPT !.bad = TRUE]                                  \* double / unknown free
  ELSE IF ok = 0 THEN [L EXCEPT !.failed = @ + 1]                    \* request refused
  ELSE IF old # 0 THEN                                               \* realloc of a live block
       IF old \in L.live THEN [L EXCEPT !.live = (@ \ {old}) \cup (IF id > 0 THEN {id} ELSE {})]
       ELSE [L EXCEPT !.bad = TRUE]
  ELSE IF id > 0 THEN [L EXCEPT !.live = @ \cup {id}]
  ELSE IF id < 0 THEN [L EXCEPT !.bad = TRUE]
  ELSE L

RECURSIVE LedgerRun(_,_,_)
LedgerRun(L, log, i) == IF i > Len(log) THEN L ELSE LedgerRun(LedgerStep(L, log[i]), log, i+1)
Ledger(log) == LedgerRun(LedgerInit, log, 1)
LedgerFrom(L, log) == LedgerRun(L, log, 1)

Balanced(L) == ~L.bad /\ L.live = {}
NoFrees(log) == \A i \in 1..Len(log) : log[i][1] # "f" \/ log[i][2] = 0
NoRequests(log) == log = <<>>
=============================================================================
