INIT Init
NEXT Next
CONSTANT MaxLen = 3
INVARIANT InvRoundTrip
INVARIANT InvValid
INVARIANT InvSize
INVARIANT InvForm
CHECK_DEADLOCK FALSE
