---------------------------- MODULE Trace_Session ----------------------------
(* Validates recorded SESSIONS of the real library against the object-level    *)
(* machine of UriSession (C07, C12; the per-call clauses of C06/C08/C10 are     *)
(* re-used from Trace_Algebra).  The trace specification carries the session    *)
(* state through an episode: each event must be an enabled action of the        *)
(* machine, the object handed to the call must still be what the machine holds  *)
(* for that slot (nothing changed behind its back), and every observation of a  *)
(* usable slot - in particular after a buffer was scribbled or released - must  *)
(* return the held value, recompose to its text and read back as the same URI.  *)
(* The machine follows the recorded objects, so validation continues after a   *)
(* rejected step; only a memory fault or a driver error ends an episode.        *)
EXTENDS Trace_Algebra, UriSession, UriLanguage

VARIABLES st, bad
svars == <<l, st, bad>>

HasField(x, k) == k \in DOMAIN x
HarnessErr(why) == Fail("HARNESS", why)
Same(j, v) == ValOf(j) = v
PreCheck(j, s) == FailIf(~Same(j, st.slot[s].val), "C12", "the URI handed to the call is not what the slot held after the last call on it (its text changed behind its back)")
FaultFail(x) == FailIf(x.fault # 0, "C12", "memory fault inside the call: caller text was written to, or released text was read")

R(fails, nst) == [fails |-> fails, st |-> nst]

\* C14 inside a session: the out-of-memory code is returned exactly when a request of that call failed; a failed call changes
\* nothing but the URI it was given for output or in-place modification (which the caller then frees: the slot is empty afterwards)
RC_MALLOC == 3
OomFails(x) == FailIf(x.memfail /\ x.rc # RC_MALLOC, "C14", "an allocation request failed but the call did not return the out-of-memory code")
            \o FailIf(~x.memfail /\ x.rc = RC_MALLOC, "C14", "out-of-memory code although no request failed")
Oom(x) == x.memfail /\ x.rc = RC_MALLOC

StepOf(x) ==
  CASE x.e = "SBuf" -> IF CanBuf(st, x.i) THEN R(<<>>, DoBuf(st, x.i, x.text)) ELSE R(HarnessErr("buffer already live"), st)
    [] x.e = "SParse" ->
         IF ~CanParse(st, x.s, x.i) THEN R(HarnessErr("parse not enabled"), st)
         ELSE LET t == st.buf[x.i].text  acc == Accepts(t) IN
              IF x.fault # 0 THEN R(FaultFail(x), st)
              ELSE IF x.memfail \/ x.rc = RC_MALLOC THEN R(OomFails(x), IF x.rc = 0 THEN Put(st, x.s, ValOf(x.out), FALSE, {BufDep(x.i)}) ELSE st)
              ELSE IF (x.rc = 0) # acc THEN R(Fail("C01", "acceptance differs from the RFC 3986 grammar"), st)
              ELSE IF x.rc # 0 THEN R(<<>>, st)
              ELSE R(FailIf(~Same(x.out, Components(t)), "C02", "components differ from the RFC 3986 split")
                     \o FailIf(x.out.own # 0, "C12", "a freshly parsed URI claims to own its text")
                     \o FailIf(~WfOf(x.out), "C07", "structure not well formed"),
                     Put(st, x.s, ValOf(x.out), FALSE, {BufDep(x.i)}))
    [] x.e = "SMakeOwner" ->
         IF ~CanMakeOwner(st, x.s) THEN R(HarnessErr("make-owner not enabled"), st)
         ELSE IF x.fault # 0 THEN R(FaultFail(x), st)
         ELSE IF Oom(x) THEN R(PreCheck(x.pre, x.s), DoFree(st, x.s))
         ELSE IF x.rc # 0 \/ x.memfail THEN R(OomFails(x) \o FailIf(x.rc # 0 /\ x.rc # RC_MALLOC, "C12", "make-owner failed without an allocation failure"), st)
         ELSE R(PreCheck(x.pre, x.s)
                \o FailIf(~Same(x.out, st.slot[x.s].val), "C12", "make-owner changed the content of the URI")
                \o FailIf(x.out.own # 1, "C12", "not owner after make-owner")
                \o FailIf(~WfOf(x.out), "C07", "structure not well formed after make-owner"),
                DoMakeOwner(st, x.s))
    [] x.e = "SNormalize" ->
         IF ~CanNormalize(st, x.s) THEN R(HarnessErr("normalize not enabled"), st)
         ELSE IF x.fault # 0 THEN R(FaultFail(x), st)
         ELSE IF Oom(x) THEN R(PreCheck(x.pre, x.s), DoFree(st, x.s))
         ELSE IF x.rc # 0 \/ x.memfail THEN R(OomFails(x) \o FailIf(x.rc # 0 /\ x.rc # RC_MALLOC, "C08", "normalization failed without an allocation failure"), st)
         ELSE R(PreCheck(x.pre, x.s) \o V([e |-> "Normalize", val |-> x.pre, mask |-> x.m, rc |-> x.rc, out |-> x.out]),
                DoNormalizeTo(st, x.s, x.m, ValOf(x.out)))
    [] x.e = "SAddBase" ->
         IF ~CanAddBase(st, x.d, x.r, x.b) THEN R(HarnessErr("add-base not enabled"), st)
         ELSE IF x.fault # 0 THEN R(FaultFail(x), st)
         ELSE IF x.rc = RC_MALLOC THEN
              R(PreCheck(x.prer, x.r) \o PreCheck(x.preb, x.b) \o OomFails(x)
                \o FailIf(x.postr # x.prer \/ x.postb # x.preb, "C12", "a failed resolution modified a read-only operand"), st)
         ELSE LET ro == x.postr = x.prer /\ x.postb = x.preb
                  rec == IF x.rc = 0 THEN [e |-> "AddBase", r |-> x.prer, b |-> x.preb, opt |-> x.opt, rc |-> x.rc, t |-> x.out, text |-> x.text, ro |-> ro]
                                     ELSE [e |-> "AddBase", r |-> x.prer, b |-> x.preb, opt |-> x.opt, rc |-> x.rc, ro |-> ro] IN
              R(PreCheck(x.prer, x.r) \o PreCheck(x.preb, x.b) \o OomFails(x) \o V(rec)      \* (a reported success is judged as one, also after a failed request)
                ,
                \* (a target that owns copies of its text is as good as one that shares its operands' ranges: the machine follows the flag)
                IF x.rc # 0 THEN st ELSE IF x.out.own = 1 THEN Put(st, x.d, ValOf(x.out), TRUE, {}) ELSE DoAddBaseTo(st, x.d, x.r, x.b, ValOf(x.out)))
    [] x.e = "SRemoveBase" ->
         IF ~CanRemoveBase(st, x.d, x.s, x.b) THEN R(HarnessErr("remove-base not enabled"), st)
         ELSE IF x.fault # 0 THEN R(FaultFail(x), st)
         ELSE IF x.rc = RC_MALLOC THEN
              R(PreCheck(x.pres, x.s) \o PreCheck(x.preb, x.b) \o OomFails(x)
                \o FailIf(x.postr # x.pres \/ x.postb # x.preb, "C12", "a failed reference creation modified a read-only operand"), st)
         ELSE LET ro == x.postr = x.pres /\ x.postb = x.preb
                  rec == IF x.rc = 0 THEN [e |-> "RemoveBase", s |-> x.pres, b |-> x.preb, mode |-> x.mode, rc |-> x.rc, ref |-> x.out, text |-> x.text, ro |-> ro, leak |-> 0, backrc |-> 1]
                                     ELSE [e |-> "RemoveBase", s |-> x.pres, b |-> x.preb, mode |-> x.mode, rc |-> x.rc, ro |-> ro] IN
              R(PreCheck(x.pres, x.s) \o PreCheck(x.preb, x.b) \o OomFails(x) \o V(rec),
                IF x.rc # 0 THEN st ELSE IF x.out.own = 1 THEN Put(st, x.d, ValOf(x.out), TRUE, {}) ELSE DoRemoveBaseTo(st, x.d, x.s, x.b, ValOf(x.out)))
    [] x.e = "SFree" -> IF CanFree(st, x.s) THEN R(FaultFail(x), DoFree(st, x.s)) ELSE R(HarnessErr("free of an empty slot"), st)
    [] x.e = "SScribble" -> IF CanScribble(st, x.i) THEN R(<<>>, DoScribble(st, x.i)) ELSE R(HarnessErr("scribble of a dead buffer"), st)
    [] x.e = "SObserve" ->
         IF ~CanObserve(st, x.s) THEN R(HarnessErr("observed a slot that is not usable"), st)
         ELSE IF x.fault # 0 THEN R(Fail("C12", "memory fault while reading a URI that borrows nothing from what was overwritten or released"), st)
         ELSE LET v == st.slot[x.s].val IN
              R(FailIf(~Same(x.val, v), "C12", "the components of a URI changed although nothing it borrows from was touched")
                \o FailIf(Same(x.val, v) /\ x.text # Some(Recompose(v)), "C12", "the recomposed text of a URI changed although nothing it borrows from was touched")
                \o FailIf(x.val.own # (IF st.slot[x.s].owner THEN 1 ELSE 0), "C12", "owner flag differs from the machine's")
                \o FailIf(~WfOf(x.val), "C07", "structure not well formed")
                \o FailIf(Same(x.val, v) /\ (x.rrc # 0 \/ (HasField(x, "re") /\ ~SameMeaning(ValOf(x.re), v))), "C07", "the recomposed text is not a URI reference, or reads back with a different scheme, authority, path text, query or fragment")
                \o FailIf(Same(x.val, v) /\ x.rrc = 0 /\ HasField(x, "re") /\ SameMeaning(ValOf(x.re), v) /\ ~Equal(ValOf(x.re), v), "C11", "reads back with the same text but a different structure"),
                st)
    [] x.e = "SEquals" ->
         IF ~(CanObserve(st, x.a) /\ CanObserve(st, x.b)) THEN R(HarnessErr("compared a slot that is not usable"), st)
         ELSE IF x.fault # 0 THEN R(FaultFail(x), st)
         ELSE R(PreCheck(x.prea, x.a) \o PreCheck(x.preb, x.b)
                \o V([e |-> "Equals", a |-> x.prea, b |-> x.preb, res |-> x.res, rev |-> x.rev, ro |-> x.ro, lib |-> TRUE, ta |-> x.ta, tb |-> x.tb]), st)
    [] x.e = "SAfterFail" -> R(FailIf(x.fault # 0, "C14", "the URI a failed in-place call left behind points into memory the call released (reading it faults)"), st)
    [] x.e = "SEnd" -> R(FailIf(x.leak # 0 \/ x.bad, "C13", "blocks of the session's manager outstanding after every URI was freed (or a bad release)"), st)
    [] x.e = "SSkip" -> R(HarnessErr("the driver attempted an action its own mirror did not enable"), st)
    [] OTHER -> R(HarnessErr("unknown event"), st)

SInit == l = 1 /\ st = SessionInit({}, {}) /\ bad = FALSE
\* fails explained by an enabled named deviation do not poison the episode: the machine follows the recorded object
Explained(f) == \A i \in 1..Len(f) : HasField(f[i], "dev")
SNext ==
  /\ l <= Len(Tr) /\ l' = l + 1
  /\ (l < Len(Tr) \/ RejOut([done |-> Len(Tr)]))
  /\ LET x == Tr[l] IN
     IF x.e = "Reset" THEN st' = SessionInit(1..x.ns, 1..x.nb) /\ bad' = FALSE
     ELSE IF bad THEN UNCHANGED <<st, bad>>
     ELSE LET r == StepOf(x) IN
          \* the machine follows the RECORDED objects, so a rejected step does not make later steps meaningless: validation goes on and every
          \* later step is judged on its own operands (no cascades, and a defect that shows two steps later is still attributed to that
          \* step's property).  Only a memory fault or a driver error ends the episode: the process state is not trustworthy after it.
          /\ st' = r.st /\ bad' = ((HasField(x, "fault") /\ x.fault # 0) \/ (\E i \in 1..Len(r.fails) : r.fails[i].p = "HARNESS"))
          /\ r.fails = <<>> \/ RejOut([line |-> l, fails |-> r.fails, ev |-> x])
=============================================================================
