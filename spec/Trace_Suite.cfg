INIT TInit
NEXT SNextSuite
CHECK_DEADLOCK FALSE
