INIT Init
NEXT Next
CONSTANT Rich = FALSE
INVARIANT InvIdealInRelation
INVARIANT InvClosedForms
INVARIANT InvRelCodes
CHECK_DEADLOCK FALSE
ALIAS Pretty
