-------------------------- MODULE Emit_Recognizer --------------------------
(* Writes the complete recognizer state graph explored by TLC, and the     *)
(* computed code-point partition, as ND-JSON.  The native walker of the    *)
(* harness has no semantics of its own: it follows exactly these tables.   *)
EXTENDS MC_Recognizer, Json, CSV, IOUtils

OutFile == IOEnv.EMIT_OUT
Emit(rec) == CSVWrite("%1$s", <<ToJson(rec)>>, OutFile)

EInit == /\ RInit
         /\ Emit([k |-> "classes", reps |-> [c \in CodePoints |-> RepOf(c)]])
         /\ Emit([k |-> "init", s |-> ToString(N0), acc |-> Accepting(N0)])
ENext == \E c \in Sigma :
           /\ Feed(c)
           /\ Emit([k |-> "edge", s |-> ToString(N), c |-> c, t |-> ToString(N'),
                    acc |-> Accepting(N'), dead |-> (N' = {}), pre |-> pre'])
=============================================================================
