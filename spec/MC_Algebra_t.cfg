INIT Init
NEXT Next
CONSTANT MaxSegs = 3
CONSTANT AltMode = FALSE
INVARIANT InvNormStructural
INVARIANT InvNormIdempotent
INVARIANT InvNormKind
INVARIANT InvNormMaskLocal
INVARIANT InvResolveRc
INVARIANT InvResolveStructural
INVARIANT InvResolveRfcText
INVARIANT InvResolveNeverAbsolutizes
INVARIANT InvC09
CHECK_DEADLOCK FALSE
ALIAS Pretty
