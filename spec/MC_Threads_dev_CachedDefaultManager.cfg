INIT Init
NEXT Next
CONSTANT Threads = {1, 2, 3}
CONSTANT Kinds <- AllKinds
CONSTANT CallsPerThread = 1
CONSTANT Devs = {"CachedDefaultManager"}
INVARIANT NoRace
INVARIANT ResultsSequential
CHECK_DEADLOCK FALSE
