#include <uriparser/Uri.h>
#include <stdio.h>
#include <string.h>
static void js(const char*s){ printf("["); for(;*s;s++) printf("%d%s",(unsigned char)*s,s[1]?",":""); printf("]"); }
int main(){
 const char*auth[]={"","//h","//u@h","//h:1","//g"}; const char*paths_h[]={"","/","/a","/a/b","/a/","/a/b/c","/b","/a/c","/a:b","//x","/a//b","/a/../b"};
 const char*paths_n[]={"","/","/a","/a/b","/a/","/b","a","a/b","b","a/","a:b/c","/a:b"};
 const char*qs[]={"","?q"}; const char*sch[]={"s:","t:"};
 char S[64][64]; int ns=0; 
 for(int a=0;a<5;a++){ const char**pp = a? paths_h:paths_n; int np=12; for(int p=0;p<np;p++) for(int q=0;q<2;q++){ if(ns<64*0+1000){} }}
 /* build list */
 static char list[400][64]; int n=0;
 for(int sc=0;sc<2;sc++) for(int a=0;a<5;a++){ const char**pp = a? paths_h:paths_n; for(int p=0;p<12;p++) for(int q=0;q<2;q++){ if(sc==1 && (a>1||p>3||q)) continue; snprintf(list[n++],64,"%s%s%s%s",sch[sc],auth[a],pp[p],qs[q]); } }
 for(int i=0;i<n;i++) for(int j=0;j<n;j++) for(int mode=0;mode<2;mode++){ UriUriA s,b,r; const char*e; if(uriParseSingleUriA(&s,list[i],&e)) continue; if(uriParseSingleUriA(&b,list[j],&e)){uriFreeUriMembersA(&s);continue;}
   int rc=uriRemoveBaseUriA(&r,&s,&b,mode); char buf[256]=""; if(!rc){ uriToStringA(buf,&r,256,0); }
   printf("{\"s\":"); js(list[i]); printf(",\"b\":"); js(list[j]); printf(",\"mode\":%d,\"rc\":%d,\"ref\":",mode,rc); js(buf); printf(",\"abs\":%d,\"nseg\":%d}\n", rc?0:r.absolutePath, 0);
   if(!rc) uriFreeUriMembersA(&r); uriFreeUriMembersA(&s); uriFreeUriMembersA(&b); }
 fprintf(stderr,"uris=%d\n",n); return 0; }
