---- MODULE EM ----
EXTENDS MCV, Json, CSV
VARIABLE done
EInit == r \in Refs /\ b \in Bases /\ phase = 0 /\ done = FALSE
ENext == /\ phase = 0 /\ phase' = 1 /\ UNCHANGED <<r, b>>
         /\ done' = CSVWrite("%1$s", <<ToJson([r |-> Recompose(r), b |-> Recompose(b), t |-> Recompose(T), n |-> Recompose(NR),
                                              nt |-> Recompose(NormalizePath(T))])>>, "/tmp/proto/cases.ndjson")
====
