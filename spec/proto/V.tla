---- MODULE V ----
EXTENDS UriGrammarProto, SequencesExt, FiniteSetsExt

\* ---------- small helpers on text (Seq(Nat)) ----------
RECURSIVE IndexFrom(_,_,_)
IndexFrom(s, c, i) == IF i > Len(s) THEN 0 ELSE IF s[i] = c THEN i ELSE IndexFrom(s, c, i+1)
Idx(s, c) == IndexFrom(s, c, 1)
Sub(s, i, j) == IF j < i THEN <<>> ELSE SubSeq(s, i, j)
Has(s, c) == Idx(s, c) # 0
None == <<>>
Some(t) == <<t>>
IsSome(o) == o # <<>>

RECURSIVE SplitOn(_,_)
SplitOn(s, c) == LET k == Idx(s, c) IN
   IF k = 0 THEN <<s>> ELSE <<Sub(s,1,k-1)>> \o SplitOn(Sub(s,k+1,Len(s)), c)
RECURSIVE Join(_,_)
Join(segs, c) == IF segs = <<>> THEN <<>> ELSE IF Len(segs) = 1 THEN segs[1]
                 ELSE segs[1] \o <<c>> \o Join(Tail(segs), c)

DOT == <<46>>
DOTDOT == <<46,46>>
SL == 47

\* ---------- value ----------
\* [scheme, userInfo, host (option), port, abs, segs, query, frag]  (host kinds omitted in this prototype)
PathText(hasHost, abs, segs) ==
  IF hasHost THEN IF segs = <<>> THEN <<>> ELSE <<SL>> \o Join(segs, SL)
  ELSE (IF abs THEN <<SL>> ELSE <<>>) \o Join(segs, SL)

Recompose(v) ==
  (IF IsSome(v.scheme) THEN v.scheme[1] \o <<58>> ELSE <<>>)
  \o (IF IsSome(v.host) THEN <<SL,SL>> \o (IF IsSome(v.userInfo) THEN v.userInfo[1] \o <<64>> ELSE <<>>)
                              \o v.host[1] \o (IF IsSome(v.port) THEN <<58>> \o v.port[1] ELSE <<>>)
      ELSE <<>>)
  \o PathText(IsSome(v.host), v.abs, v.segs)
  \o (IF IsSome(v.query) THEN <<63>> \o v.query[1] ELSE <<>>)
  \o (IF IsSome(v.frag) THEN <<35>> \o v.frag[1] ELSE <<>>)

Components(s) ==
  LET h == Idx(s, 35)
      frag == IF h = 0 THEN None ELSE Some(Sub(s, h+1, Len(s)))
      s1 == IF h = 0 THEN s ELSE Sub(s, 1, h-1)
      q == Idx(s1, 63)
      query == IF q = 0 THEN None ELSE Some(Sub(s1, q+1, Len(s1)))
      s2 == IF q = 0 THEN s1 ELSE Sub(s1, 1, q-1)
      c == Idx(s2, 58)
      sl == Idx(s2, SL)
      hasScheme == c > 1 /\ (sl = 0 \/ c < sl)
      scheme == IF hasScheme THEN Some(Sub(s2, 1, c-1)) ELSE None
      s3 == IF hasScheme THEN Sub(s2, c+1, Len(s2)) ELSE s2
      hasAuth == Len(s3) >= 2 /\ s3[1] = SL /\ s3[2] = SL
      aEnd == IF hasAuth THEN LET k == IndexFrom(s3, SL, 3) IN IF k = 0 THEN Len(s3) ELSE k-1 ELSE 0
      auth == IF hasAuth THEN Sub(s3, 3, aEnd) ELSE <<>>
      path == IF hasAuth THEN Sub(s3, aEnd+1, Len(s3)) ELSE s3
      at == Idx(auth, 64)
      userInfo == IF hasAuth /\ at # 0 THEN Some(Sub(auth, 1, at-1)) ELSE None
      hp == IF at = 0 THEN auth ELSE Sub(auth, at+1, Len(auth))
      br == Len(hp) > 0 /\ hp[1] = 91
      rb == Idx(hp, 93)
      hostEnd == IF br THEN rb ELSE LET k == Idx(hp, 58) IN IF k = 0 THEN Len(hp) ELSE k-1
      hostTxt == Sub(hp, 1, hostEnd)        \* brackets kept in this prototype
      port == IF hostEnd < Len(hp) THEN Some(Sub(hp, hostEnd+2, Len(hp))) ELSE None
      abs == ~hasAuth /\ Len(path) > 0 /\ path[1] = SL
      segs == IF path = <<>> THEN <<>>
              ELSE IF hasAuth THEN SplitOn(Sub(path, 2, Len(path)), SL)
              ELSE IF abs THEN (IF Len(path) = 1 THEN <<>> ELSE SplitOn(Sub(path, 2, Len(path)), SL))
              ELSE SplitOn(path, SL)
  IN [scheme |-> scheme, userInfo |-> userInfo, host |-> IF hasAuth THEN Some(hostTxt) ELSE None,
      port |-> port, abs |-> abs, segs |-> segs, query |-> query, frag |-> frag]

\* ---------- canonical form of a path in its context (rules 1-6 of DESIGN 2.2) ----------
HasColon(t) == Has(t, 58)
Canon(v) ==
  LET hh == IsSome(v.host)
      hs == IsSome(v.scheme)
      abs1 == IF hh THEN FALSE ELSE v.abs
      \* rule 1: host + abs + no segs  => lone empty segment
      segs1 == IF hh /\ v.abs /\ v.segs = <<>> THEN << <<>> >> ELSE v.segs
      \* rule 2
      segs2 == IF ~hh /\ segs1 = << <<>> >> THEN <<>> ELSE segs1
      \* rule 5a: scheme present, rootless structure whose text begins with "/": same text, absolute structure
      re5 == ~hh /\ ~abs1 /\ hs /\ Len(segs2) >= 2 /\ segs2[1] = <<>>
      abs2 == IF re5 THEN TRUE ELSE abs1
      segs2b == IF re5 THEN Tail(segs2) ELSE segs2
      segs2c == IF ~hh /\ segs2b = << <<>> >> THEN <<>> ELSE segs2b
      need3 == ~hh /\ abs2 /\ segs2c # <<>> /\ segs2c[1] = <<>>
      need4 == ~hh /\ ~abs2 /\ ~hs /\ segs2c # <<>> /\ HasColon(segs2c[1])
      need5 == ~hh /\ ~abs2 /\ ~hs /\ Len(segs2c) >= 2 /\ segs2c[1] = <<>>
      segs3 == IF need3 \/ need4 \/ need5 THEN <<DOT>> \o segs2c ELSE segs2c
  IN [v EXCEPT !.abs = abs2, !.segs = segs3]

\* ---------- dot removal (left fold with stack) ----------
RECURSIVE Fold(_,_,_,_)
\* out: stack; trailing: last processed was a removed dot segment
Fold(segs, out, relative, trailing) ==
  IF segs = <<>> THEN [out |-> out, trailing |-> trailing]
  ELSE LET x == Head(segs) r == Tail(segs) IN
    IF x = DOT THEN Fold(r, out, relative, TRUE)
    ELSE IF x = DOTDOT THEN
      IF relative /\ (out = <<>> \/ Last(out) = DOTDOT) THEN Fold(r, Append(out, x), relative, FALSE)
      ELSE Fold(r, IF out = <<>> THEN out ELSE Front(out), relative, TRUE)
    ELSE Fold(r, Append(out, x), relative, FALSE)
RemoveDots(segs, relative) ==
  LET f == Fold(segs, <<>>, relative, FALSE) IN
  IF f.trailing THEN Append(f.out, <<>>) ELSE f.out

\* ---------- resolution (RFC 5.2.2 on values) ----------
Merge(B, R) ==   \* base has authority and empty path -> "/" + R.path ; else all but last of base + R
  IF IsSome(B.host) /\ B.segs = <<>> THEN [abs |-> TRUE, segs |-> R.segs]
  ELSE [abs |-> B.abs \/ IsSome(B.host), segs |-> (IF B.segs = <<>> THEN <<>> ELSE Front(B.segs)) \o R.segs]

Resolve(R, B) ==
  LET T ==
    IF IsSome(R.scheme) THEN [R EXCEPT !.segs = RemoveDots(R.segs, FALSE)]
    ELSE IF IsSome(R.host) THEN [R EXCEPT !.scheme = B.scheme, !.segs = RemoveDots(R.segs, FALSE)]
    ELSE IF R.segs = <<>> /\ ~R.abs THEN
        [B EXCEPT !.query = IF IsSome(R.query) THEN R.query ELSE B.query, !.frag = R.frag]
    ELSE IF R.abs THEN
        [B EXCEPT !.abs = TRUE, !.segs = RemoveDots(R.segs, FALSE), !.query = R.query, !.frag = R.frag]
    ELSE LET m == Merge(B, R) IN
        [B EXCEPT !.abs = m.abs, !.segs = RemoveDots(m.segs, FALSE), !.query = R.query, !.frag = R.frag]
  IN Canon([T EXCEPT !.frag = R.frag])

\* ---------- normalization (path part only in this prototype) ----------
IsRelative(v) == ~IsSome(v.scheme) /\ ~IsSome(v.host) /\ ~v.abs
NormalizePath(v) ==
  LET rel == IsRelative(v)
      s1 == RemoveDots(v.segs, rel)
      \* rule 6: a relative-path reference that cancels completely stays "."
      allGone == rel /\ v.segs # <<>> /\ (s1 = <<>> \/ s1 = << <<>> >>)
      s2 == IF allGone THEN <<DOT>> ELSE s1
  IN Canon([v EXCEPT !.segs = s2])

\* ---------- the property formulas ----------
SameMeaning(a, b) ==
  /\ a.scheme = b.scheme /\ a.userInfo = b.userInfo /\ a.host = b.host /\ a.port = b.port
  /\ PathText(IsSome(a.host), a.abs, a.segs) = PathText(IsSome(b.host), b.abs, b.segs)
  /\ a.query = b.query /\ a.frag = b.frag
Stable(v) == LET t == Recompose(v) IN Accepts(t) /\ SameMeaning(Components(t), v)
Structural(v) == LET t == Recompose(v) IN Accepts(t) /\ Components(t) = v   \* C11: same text <=> same structure
====
