INIT Init
NEXT Next
VIEW View
INVARIANT Agree
CHECK_DEADLOCK FALSE
CONSTANT Sigma = {97,102,103,118,65,70,71,48,49,50,51,53,54,46,45,43,95,33,58,64,47,63,35,91,93,37,32}
