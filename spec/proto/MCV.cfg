INIT Init
NEXT Next
INVARIANT InvResolveStable
INVARIANT InvNormStable
INVARIANT InvC09
INVARIANT InvKind
INVARIANT InvIdem
CHECK_DEADLOCK FALSE
