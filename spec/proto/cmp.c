#include <uriparser/Uri.h>
#include <stdio.h>
#include <string.h>
static int P(UriUriA*u,const char*s){ const char*e; return uriParseSingleUriA(u,s,&e);} 
int main(){ FILE*f=fopen("/tmp/proto/cases.tsv","r"); char line[1024]; int n=0,dt=0,dn=0,dnt=0; 
 while(fgets(line,sizeof line,f)){ char*fld[5]; char*p=line; for(int i=0;i<5;i++){ fld[i]=p; char*q=strpbrk(p,"\t\n"); if(q){*q=0;p=q+1;} }
  n++; UriUriA r,b,t; char tb[256]="<err>",nb[256]="<err>",ntb[256]="<err>";
  if(P(&r,fld[0])||P(&b,fld[1])){ printf("PARSEFAIL r=%s b=%s\n",fld[0],fld[1]); continue; }
  int rc=uriAddBaseUriA(&t,&r,&b); if(!rc){ uriToStringA(tb,&t,256,0); uriNormalizeSyntaxExA(&t,URI_NORMALIZE_PATH); uriToStringA(ntb,&t,256,0); uriFreeUriMembersA(&t);} 
  uriNormalizeSyntaxExA(&r,URI_NORMALIZE_PATH); uriToStringA(nb,&r,256,0);
  if(strcmp(tb,fld[2])){ dt++; printf("RESOLVE\tb=%s\tr=%s\tspec=%s\treal=%s\n",fld[1],fld[0],fld[2],tb);} 
  if(strcmp(nb,fld[3])){ dn++; if(!strcmp(fld[1],"s:")) printf("NORM\tr=%s\tspec=%s\treal=%s\n",fld[0],fld[3],nb);} 
  if(strcmp(ntb,fld[4])){ dnt++; }
  uriFreeUriMembersA(&r);uriFreeUriMembersA(&b);
 }
 fprintf(stderr,"cases=%d resolve_diff=%d norm_diff=%d normT_diff=%d\n",n,dt,dn,dnt); return 0; }
