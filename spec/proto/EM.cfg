INIT EInit
NEXT ENext
CHECK_DEADLOCK FALSE
