#include <uriparser/Uri.h>
#include <stdio.h>
#include <string.h>
int main(){ char line[1024]; int n=0,agree=0; while(fgets(line,sizeof line,stdin)){ char*f[5]; char*p=line; for(int i=0;i<5;i++){ f[i]=p; char*q=strpbrk(p,"\t\n"); if(q){*q=0;p=q+1;} }
 UriUriA s,b,r,t; const char*e; if(uriParseSingleUriA(&s,f[2],&e)||uriParseSingleUriA(&b,f[3],&e)) continue; if(uriParseSingleUriA(&r,f[4],&e)){ printf("REF-UNPARSEABLE %s\n",f[4]); continue;} 
 uriAddBaseUriA(&t,&r,&b); uriNormalizeSyntaxExA(&t,URI_NORMALIZE_PATH); uriNormalizeSyntaxExA(&s,URI_NORMALIZE_PATH); char a[256],c[256]; uriToStringA(a,&t,256,0); uriToStringA(c,&s,256,0); n++; if(!strcmp(a,c)){ agree++; printf("SPEC-SAYS-FAIL-BUT-REAL-ROUNDTRIPS pat=%s mode=%s S=%s B=%s ref=[%s]\n",f[0],f[1],f[2],f[3],f[4]); } }
 fprintf(stderr,"checked=%d real_roundtrips=%d\n",n,agree); return 0; }
