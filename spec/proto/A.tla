---- MODULE A ----
EXTENDS G, SequencesExt
CONSTANT Sigma
END == <<999>>

RECURSIVE NodeAt(_,_,_)
\* node reached from g by following path[k..]
NodeAt(g, path, k) ==
  IF k > Len(path) THEN g
  ELSE CASE g.t = "seq" -> NodeAt(g.a[path[k]], path, k+1)
         [] g.t = "alt" -> NodeAt(g.a[path[k]], path, k+1)
         [] g.t = "rep" -> NodeAt(g.g, path, k+1)
         [] g.t = "ref" -> NodeAt(Gram[g.n], path, k+1)
Root == Ref("URIreference")
Node(path) == NodeAt(Root, path, 1)

RECURSIVE Nullable(_)
Nullable(g) ==
  CASE g.t = "cls" -> FALSE
    [] g.t = "seq" -> \A k \in 1..Len(g.a) : Nullable(g.a[k])
    [] g.t = "alt" -> \E k \in 1..Len(g.a) : Nullable(g.a[k])
    [] g.t = "rep" -> g.lo = 0 \/ Nullable(g.g)
    [] g.t = "ref" -> Nullable(Gram[g.n])

RECURSIVE First(_,_), FirstSeq(_,_,_)
First(g, p) ==
  CASE g.t = "cls" -> {p}
    [] g.t = "seq" -> FirstSeq(g, p, 1)
    [] g.t = "alt" -> UNION { First(g.a[k], Append(p,k)) : k \in 1..Len(g.a) }
    [] g.t = "rep" -> First(g.g, Append(p,1))
    [] g.t = "ref" -> First(Gram[g.n], Append(p,0))
\* first positions of g.a[k..]; does not include what follows the seq
FirstSeq(g, p, k) ==
  IF k > Len(g.a) THEN {}
  ELSE First(g.a[k], Append(p,k)) \cup (IF Nullable(g.a[k]) THEN FirstSeq(g, p, k+1) ELSE {})
RECURSIVE RestNullable(_,_)
RestNullable(g, k) == k > Len(g.a) \/ (Nullable(g.a[k]) /\ RestNullable(g, k+1))

RECURSIVE Up(_,_)
\* positions that may follow once the subtree at SubSeq(path,1,d) is complete
Up(path, d) ==
  IF d = 0 THEN {END}
  ELSE LET pre == SubSeq(path, 1, d-1)
           P   == Node(pre)
           x   == path[d]
       IN CASE P.t = "seq" -> FirstSeq(P, pre, x+1) \cup (IF RestNullable(P, x+1) THEN Up(path, d-1) ELSE {})
            [] P.t = "alt" -> Up(path, d-1)
            [] P.t = "ref" -> Up(path, d-1)
            [] P.t = "rep" ->
                 LET bounded == P.hi # 0
                     again == IF ~bounded THEN First(P.g, Append(pre, x))
                              ELSE IF x < P.hi THEN First(P.g, Append(pre, x+1)) ELSE {}
                     exit == IF (bounded /\ x >= P.lo) \/ (~bounded) THEN Up(path, d-1) ELSE {}
                 IN again \cup exit
Follow(p) == Up(p, Len(p))
ClassOf(p) == Node(p).c

N0 == First(Root, <<>>) \cup (IF Nullable(Root) THEN {END} ELSE {})
Step(N, c) == UNION { Follow(p) : p \in {q \in N : q # END /\ c \in ClassOf(q)} }

VARIABLES N, pre
Init == N = N0 /\ pre = <<>>
Next == \E c \in Sigma : N' = Step(N, c) /\ pre' = Append(pre, c) /\ N # {}
View == N
Agree == (END \in N) = Accepts(pre)
====
