---- MODULE UriGrammarProto ----
EXTENDS Naturals, Sequences, FiniteSets, TLC

\* ---- regex-AST constructors -------------------------------------------
Cls(S)        == [t |-> "cls", c |-> S]
Ch(n)         == Cls({n})
Sq(a)         == [t |-> "seq", a |-> a]
Alt(a)        == [t |-> "alt", a |-> a]
Rep(lo,hi,g)  == [t |-> "rep", lo |-> lo, hi |-> hi, g |-> g]   \* hi = 0 means unbounded
Star(g)       == Rep(0,0,g)
Plus(g)       == [t |-> "rep", lo |-> 1, hi |-> 0, g |-> g]
Opt(g)        == [t |-> "rep", lo |-> 0, hi |-> 1, g |-> g]
Ref(n)        == [t |-> "ref", n |-> n]
Eps           == Sq(<<>>)

DIGIT  == 48..57
UPPER  == 65..90
LOWER  == 97..122
ALPHA  == UPPER \cup LOWER
HEXDIG == DIGIT \cup (65..70) \cup (97..102)
UNRES  == ALPHA \cup DIGIT \cup {45,46,95,126}
SUBDEL == {33,36,38,39,40,41,42,43,44,59,61}
PCHARC == UNRES \cup SUBDEL \cup {58,64}

Pct == Sq(<<Ch(37), Cls(HEXDIG), Cls(HEXDIG)>>)

Gram == [
  URIreference |-> Alt(<<Ref("URI"), Ref("relativeRef")>>),
  URI          |-> Sq(<<Ref("scheme"), Ch(58), Ref("hierPart"),
                        Opt(Sq(<<Ch(63), Ref("query")>>)), Opt(Sq(<<Ch(35), Ref("fragment")>>))>>),
  hierPart     |-> Alt(<<Sq(<<Ch(47), Ch(47), Ref("authority"), Ref("pathAbempty")>>),
                         Ref("pathAbsolute"), Ref("pathRootless"), Eps>>),
  relativeRef  |-> Sq(<<Ref("relativePart"),
                        Opt(Sq(<<Ch(63), Ref("query")>>)), Opt(Sq(<<Ch(35), Ref("fragment")>>))>>),
  relativePart |-> Alt(<<Sq(<<Ch(47), Ch(47), Ref("authority"), Ref("pathAbempty")>>),
                         Ref("pathAbsolute"), Ref("pathNoscheme"), Eps>>),
  scheme       |-> Sq(<<Cls(ALPHA), Star(Cls(ALPHA \cup DIGIT \cup {43,45,46}))>>),
  authority    |-> Sq(<<Opt(Sq(<<Ref("userinfo"), Ch(64)>>)), Ref("host"), Opt(Sq(<<Ch(58), Ref("port")>>))>>),
  userinfo     |-> Star(Alt(<<Cls(UNRES \cup SUBDEL \cup {58}), Pct>>)),
  host         |-> Alt(<<Ref("IPliteral"), Ref("IPv4address"), Ref("regName")>>),
  port         |-> Star(Cls(DIGIT)),
  IPliteral    |-> Sq(<<Ch(91), Alt(<<Ref("IPv6address"), Ref("IPvFuture")>>), Ch(93)>>),
  IPvFuture    |-> Sq(<<Cls({118,86}), Plus(Cls(HEXDIG)), Ch(46), Plus(Cls(UNRES \cup SUBDEL \cup {58}))>>),
  h16c         |-> Sq(<<Ref("h16"), Ch(58)>>),
  IPv6address  |-> Alt(<<
      Sq(<<Rep(6,6,Ref("h16c")), Ref("ls32")>>),
      Sq(<<Ch(58),Ch(58), Rep(5,5,Ref("h16c")), Ref("ls32")>>),
      Sq(<<Opt(Ref("h16")), Ch(58),Ch(58), Rep(4,4,Ref("h16c")), Ref("ls32")>>),
      Sq(<<Opt(Sq(<<Rep(0,1,Ref("h16c")), Ref("h16")>>)), Ch(58),Ch(58), Rep(3,3,Ref("h16c")), Ref("ls32")>>),
      Sq(<<Opt(Sq(<<Rep(0,2,Ref("h16c")), Ref("h16")>>)), Ch(58),Ch(58), Rep(2,2,Ref("h16c")), Ref("ls32")>>),
      Sq(<<Opt(Sq(<<Rep(0,3,Ref("h16c")), Ref("h16")>>)), Ch(58),Ch(58), Ref("h16c"), Ref("ls32")>>),
      Sq(<<Opt(Sq(<<Rep(0,4,Ref("h16c")), Ref("h16")>>)), Ch(58),Ch(58), Ref("ls32")>>),
      Sq(<<Opt(Sq(<<Rep(0,5,Ref("h16c")), Ref("h16")>>)), Ch(58),Ch(58), Ref("h16")>>),
      Sq(<<Opt(Sq(<<Rep(0,6,Ref("h16c")), Ref("h16")>>)), Ch(58),Ch(58)>>) >>),
  h16          |-> Rep(1,4,Cls(HEXDIG)),
  ls32         |-> Alt(<<Sq(<<Ref("h16"), Ch(58), Ref("h16")>>), Ref("IPv4address")>>),
  IPv4address  |-> Sq(<<Ref("decOctet"), Ch(46), Ref("decOctet"), Ch(46), Ref("decOctet"), Ch(46), Ref("decOctet")>>),
  decOctet     |-> Alt(<<Cls(DIGIT), Sq(<<Cls(49..57), Cls(DIGIT)>>), Sq(<<Ch(49), Cls(DIGIT), Cls(DIGIT)>>),
                         Sq(<<Ch(50), Cls(48..52), Cls(DIGIT)>>), Sq(<<Ch(50), Ch(53), Cls(48..53)>>)>>),
  regName      |-> Star(Alt(<<Cls(UNRES \cup SUBDEL), Pct>>)),
  pathAbempty  |-> Star(Sq(<<Ch(47), Ref("segment")>>)),
  pathAbsolute |-> Sq(<<Ch(47), Opt(Sq(<<Ref("segmentNz"), Star(Sq(<<Ch(47), Ref("segment")>>))>>))>>),
  pathNoscheme |-> Sq(<<Ref("segmentNzNc"), Star(Sq(<<Ch(47), Ref("segment")>>))>>),
  pathRootless |-> Sq(<<Ref("segmentNz"), Star(Sq(<<Ch(47), Ref("segment")>>))>>),
  segment      |-> Star(Ref("pchar")),
  segmentNz    |-> Plus(Ref("pchar")),
  segmentNzNc  |-> Plus(Alt(<<Cls(UNRES \cup SUBDEL \cup {64}), Pct>>)),
  pchar        |-> Alt(<<Cls(PCHARC), Pct>>),
  query        |-> Star(Alt(<<Cls(PCHARC \cup {47,63}), Pct>>)),
  fragment     |-> Star(Alt(<<Cls(PCHARC \cup {47,63}), Pct>>))
]

\* ---- matcher: set of end positions (1-based index of next unread char) ---
RECURSIVE M(_,_,_), MSeq(_,_,_,_), MRep(_,_,_,_,_)
M(g, s, i) ==
  CASE g.t = "cls" -> IF i <= Len(s) /\ s[i] \in g.c THEN {i+1} ELSE {}
    [] g.t = "seq" -> MSeq(g.a, 1, s, {i})
    [] g.t = "alt" -> UNION { M(g.a[k], s, i) : k \in 1..Len(g.a) }
    [] g.t = "rep" -> MRep(g, 0, s, {i}, IF g.lo = 0 THEN {i} ELSE {})
    [] g.t = "ref" -> M(Gram[g.n], s, i)
MSeq(a, k, s, F) ==
  IF k > Len(a) \/ F = {} THEN F
  ELSE MSeq(a, k+1, s, UNION { M(a[k], s, j) : j \in F })
\* F = frontier after n iterations, acc = accepted ends so far
MRep(g, n, s, F, acc) ==
  IF F = {} \/ (g.hi # 0 /\ n >= g.hi) THEN acc
  ELSE LET F2 == UNION { {e \in M(g.g, s, j) : e > j} : j \in F }
           n2 == n + 1
       IN MRep(g, n2, s, F2, IF n2 >= g.lo THEN acc \cup F2 ELSE acc)

Accepts(s) == (Len(s)+1) \in M(Gram.URIreference, s, 1)
====
