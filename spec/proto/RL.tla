---- MODULE RL ----
EXTENDS V, Json, IOUtils, CSV
Tr == ndJsonDeserialize("/tmp/proto/rel.ndjson")
PathApprox(x, y) ==
  LET px == IF IsSome(x.host) /\ x.segs = <<>> THEN << <<>> >> ELSE x.segs
      py == IF IsSome(y.host) /\ y.segs = <<>> THEN << <<>> >> ELSE y.segs
  IN px = py /\ x.abs = y.abs
Approx(x, y) == x.scheme = y.scheme /\ x.userInfo = y.userInfo /\ x.host = y.host /\ x.port = y.port
                /\ PathApprox(x, y) /\ x.query = y.query /\ x.frag = y.frag
SameAuth(S, B) == S.userInfo = B.userInfo /\ S.host = B.host /\ S.port = B.port
CanOmitScheme(S, B) == IsSome(S.host) \/ (~IsSome(B.host) /\ (S.abs \/ ~B.abs))
Classify(x) ==
  LET S == Components(x.s)  B == Components(x.b)
      ok == Accepts(x.ref)
      RR == Components(x.ref)
      T == Resolve(RR, B)
      rt == ok /\ Approx(NormalizePath(T), NormalizePath(S))
      same == S.scheme = B.scheme
      schemeOK == (same /\ CanOmitScheme(S, B)) => ~IsSome(RR.scheme)
      authOK == (same /\ IsSome(S.host) /\ SameAuth(S, B)) => (~IsSome(RR.host) /\ ~IsSome(RR.scheme))
      diffOK == ~same => x.ref = x.s
      modeOK == (x.mode = 1 /\ ~IsSome(RR.scheme) /\ ~IsSome(RR.host)) => RR.abs
      stable == ok /\ Stable(RR)
  IN [rt |-> rt, schemeOK |-> schemeOK, authOK |-> authOK, diffOK |-> diffOK, modeOK |-> modeOK, stable |-> stable, rc |-> x.rc]
VARIABLE l
Init == l = 1
Next == /\ l <= Len(Tr) /\ l' = l + 1
        /\ LET c == Classify(Tr[l]) IN
           IF c.rt /\ c.schemeOK /\ c.authOK /\ c.diffOK /\ c.modeOK /\ c.stable /\ c.rc = 0 THEN TRUE
           ELSE CSVWrite("%1$s", <<ToJson([s |-> Tr[l].s, b |-> Tr[l].b, mode |-> Tr[l].mode, ref |-> Tr[l].ref, c |-> c])>>, "/tmp/proto/relfail.ndjson")
====
