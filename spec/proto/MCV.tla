---- MODULE MCV ----
EXTENDS V
A == <<97>>  BC == <<98,58,99>>  E == <<>>
SegAlpha == {E, DOT, DOTDOT, A, BC}
SegSeqs == UNION { [1..n -> SegAlpha] : n \in 0..3 }
OptSet(S) == {None} \cup {Some(x) : x \in S}
RefTexts == { Recompose([scheme |-> sc, userInfo |-> None, host |-> h, port |-> None, abs |-> ab, segs |-> sg, query |-> q, frag |-> None]) :
               sc \in OptSet({<<115>>}), h \in OptSet({<<104>>}), ab \in BOOLEAN, sg \in SegSeqs, q \in OptSet({<<113>>}) }
Refs == { Components(t) : t \in {x \in RefTexts : Accepts(x)} }
BaseTexts == { <<115,58>> \o t : t \in { <<>>, <<47>>, <<47,120>>, <<47,120,47,121>>, <<47,120,47>>, <<120>>, <<120,47,121>>,
              <<47,47,103>>, <<47,47,103,47>>, <<47,47,103,47,120,47,121>>, <<47,47,103,47,120,47,47>>, <<47,47,103,63,122>> } }
Bases == { Components(t) : t \in BaseTexts }
VARIABLES r, b, phase
Init == r \in Refs /\ b \in Bases /\ phase = 0
Next == phase = 0 /\ phase' = 1 /\ UNCHANGED <<r, b>>
T == Resolve(r, b)
NR == NormalizePath(r)
InvResolveStable == Structural(T)
InvNormStable == Structural(NR)
InvC09 == NormalizePath(Resolve(NR, b)) = NormalizePath(T)
InvKind == /\ IsSome(NR.scheme) = IsSome(r.scheme) /\ IsSome(NR.host) = IsSome(r.host)
           /\ (IsRelative(r) /\ r.segs # <<>> => IsRelative(NR) /\ NR.segs # <<>> /\ PathText(FALSE, NR.abs, NR.segs) # <<>> /\ PathText(FALSE,NR.abs,NR.segs)[1] # SL)
           /\ (~IsSome(r.scheme) /\ ~IsSome(r.host) /\ r.abs => NR.abs)
InvIdem == NormalizePath(NR) = NR
====
