------------------------------- MODULE UriFile -------------------------------
(* Filename <-> URI string conversions (C18).                                  *)
EXTENDS UriEscape

FILE2 == <<102,105,108,101,58,47,47>>          \* file://
FILE3 == <<102,105,108,101,58,47,47,47>>       \* file:///
FILE0 == <<102,105,108,101,58>>                \* file:
StartsW(t, p) == Len(t) >= Len(p) /\ SubSeq(t, 1, Len(p)) = p

\* ---- the documented domain
IsUnc(f) == StartsW(f, <<cBSL, cBSL>>)
UncServer(f) == LET r == From(f, 3)  k == Idx(r, cBSL) IN IF k = 0 THEN r ELSE Sub(r, 1, k-1)
IsDriveAbs(f) == Len(f) >= 2 /\ f[1] \in ALPHA /\ f[2] = cCOLON /\ (Len(f) = 2 \/ f[3] = cBSL)
WinDomain(f) == /\ ~Has(f, cSL) /\ ~Has(f, 0)
                /\ \/ IsDriveAbs(f)
                   \/ (IsUnc(f) /\ UncServer(f) # <<>>)
                   \/ (~IsUnc(f) /\ ~(Len(f) >= 2 /\ f[2] = cCOLON))            \* relative
UnixDomain(f) == ~Has(f, 0)

\* ---- filename -> URI string
RECURSIVE JoinEsc(_,_,_)
JoinEsc(segs, i, rawFirst) == IF i > Len(segs) THEN <<>>
   ELSE (IF i > 1 THEN <<cSL>> ELSE <<>>) \o (IF i = 1 /\ rawFirst THEN segs[1] ELSE Escape(segs[i], FALSE, FALSE)) \o JoinEsc(segs, i+1, rawFirst)
ToUri(f, unix) ==
  LET sep == IF unix THEN cSL ELSE cBSL
      net == ~unix /\ IsUnc(f)
      absolute == IF unix THEN (f # <<>> /\ f[1] = cSL) ELSE ((Len(f) >= 2 /\ f[2] = cCOLON) \/ net)
      prefix == IF ~absolute THEN <<>> ELSE IF unix THEN FILE2 ELSE IF net THEN FILE0 ELSE FILE3
  IN prefix \o JoinEsc(SplitOn(f, sep), 1, ~unix /\ absolute /\ ~net)

\* ---- URI string -> filename
RECURSIVE MapChar(_,_,_)
MapChar(t, a, b) == [i \in 1..Len(t) |-> IF t[i] = a THEN b ELSE t[i]]
ToFilename(u, unix) ==
  LET f0 == StartsW(u, FILE0)  f1 == StartsW(u, FILE0 \o <<cSL>>)  f2 == StartsW(u, FILE2)  f3 == StartsW(u, FILE3)
      skip == IF f2 THEN (IF f3 THEN (IF unix THEN 7 ELSE 8) ELSE 7)
              ELSE IF f1 /\ unix THEN 5
              ELSE IF ~unix /\ f0 /\ ~f1 THEN 5 ELSE 0
      netauth == ~unix /\ f2 /\ ~f3
      body == (IF netauth THEN <<cBSL, cBSL>> ELSE <<>>) \o From(u, skip + 1)
      un == Unescape(body, FALSE, 3)
  IN IF unix THEN un ELSE MapChar(un, cSL, cBSL)

\* the C string a caller sees: up to the first NUL (a decoded %00 ends it)
CStr(t) == LET k == Idx(t, 0) IN IF k = 0 THEN t ELSE Sub(t, 1, k-1)
=============================================================================
