INIT Init
NEXT Next
CONSTANT NSlots = 3
CONSTANT NBufs = 2
CONSTANT MaxDepth = 6
CONSTANT TextSet = "paths"
CONSTANT Masks = {0, 8, 63}
INVARIANT InvOwnerIndependent
INVARIANT InvDepsAlive
INVARIANT InvAllStable
INVARIANT InvEqualIffSameText
INVARIANT InvEmit
PROPERTY ScribbleLocal
PROPERTY OwnKeepsValue
VIEW View
CHECK_DEADLOCK FALSE
