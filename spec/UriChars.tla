----------------------------- MODULE UriChars -----------------------------
(* Code-point classes of RFC 3986 and small helpers on text.               *)
(* All text in this specification is Seq(Nat): a sequence of code points,  *)
(* so that char, wchar_t and out-of-range code points are one domain.      *)
EXTENDS Naturals, Sequences, FiniteSets

DIGIT   == 48..57
UPPER   == 65..90
LOWER   == 97..122
ALPHA   == UPPER \cup LOWER
HEXUP   == 65..70
HEXLO   == 97..102
HEXDIG  == DIGIT \cup HEXUP \cup HEXLO
UNRES   == ALPHA \cup DIGIT \cup {45, 46, 95, 126}          \* - . _ ~
SUBDEL  == {33, 36, 38, 39, 40, 41, 42, 43, 44, 59, 61}     \* ! $ & ' ( ) * + , ; =
GENDEL  == {58, 47, 63, 35, 91, 93, 64}                     \* : / ? # [ ] @
PCHARC  == UNRES \cup SUBDEL \cup {58, 64}                  \* pchar without pct-encoded
QUERYC  == PCHARC \cup {47, 63}

cPCT == 37   cSL == 47   cCOLON == 58   cQM == 63   cHASH == 35
cAT == 64    cLB == 91   cRB == 93      cDOT == 46  cPLUS == 43
cSP == 32    cCR == 13   cLF == 10      cAMP == 38  cEQ == 61
cBSL == 92   cPIPE == 124

HexVal(c) == IF c \in DIGIT THEN c - 48 ELSE IF c \in HEXUP THEN c - 55 ELSE c - 87
HexUpChar(n) == IF n < 10 THEN 48 + n ELSE 55 + n
HexLoChar(n) == IF n < 10 THEN 48 + n ELSE 87 + n
ToLower(c) == IF c \in UPPER THEN c + 32 ELSE c
ToUpper(c) == IF c \in LOWER THEN c - 32 ELSE c

\* ---------- option type: <<>> is "absent", <<t>> is "present (possibly empty)" ----------
None == <<>>
Some(t) == <<t>>
IsSome(o) == o # <<>>

\* ---------- text helpers ----------
RECURSIVE IndexFrom(_,_,_)
IndexFrom(s, c, i) == IF i > Len(s) THEN 0 ELSE IF s[i] = c THEN i ELSE IndexFrom(s, c, i+1)
Idx(s, c) == IndexFrom(s, c, 1)
Has(s, c) == Idx(s, c) # 0
Sub(s, i, j) == IF j < i THEN <<>> ELSE SubSeq(s, i, j)
From(s, i) == Sub(s, i, Len(s))

RECURSIVE SplitOn(_,_)
SplitOn(s, c) == LET k == Idx(s, c) IN
   IF k = 0 THEN <<s>> ELSE <<Sub(s,1,k-1)>> \o SplitOn(From(s,k+1), c)

RECURSIVE Join(_,_)
Join(segs, c) == IF segs = <<>> THEN <<>> ELSE IF Len(segs) = 1 THEN segs[1]
                 ELSE segs[1] \o <<c>> \o Join(Tail(segs), c)

LowerText(s) == [i \in 1..Len(s) |-> ToLower(s[i])]

RECURSIVE LastIndexOf(_,_,_)
LastIndexOf(s, c, i) == IF i = 0 THEN 0 ELSE IF s[i] = c THEN i ELSE LastIndexOf(s, c, i-1)
LastIdx(s, c) == LastIndexOf(s, c, Len(s))
=============================================================================
