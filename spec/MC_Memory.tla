------------------------------ MODULE MC_Memory ------------------------------
EXTENDS UriMemory
Sizes == {0, 1, 2, 3, SizeMax - Hdr, SizeMax - Hdr + 1, SizeMax}
Factors == {0, 1, 2, 3, SizeMax \div 2, SizeMax \div 2 + 1, SizeMax}
CONSTANT MaxOps
VARIABLE ops
Init == MInit /\ ops = 0
Step == \/ \E n \in Sizes, bok \in BOOLEAN : Malloc(n, bok)
        \/ \E a \in Factors, b \in Factors, bok \in BOOLEAN : Calloc(a, b, bok)
        \/ \E p \in Live \cup {NoBlock}, n \in Sizes, bok \in BOOLEAN : Realloc(p, n, bok)
        \/ \E p \in Live \cup {NoBlock}, a \in {0, 1, 2, SizeMax \div 2 + 1}, b \in {0, 2, 3, SizeMax}, bok \in BOOLEAN : ReallocArray(p, a, b, bok)
        \/ \E p \in Live \cup {NoBlock} : Free(p)
Next == ops < MaxOps /\ Step /\ ops' = ops + 1
View == <<ub, bb, ret, errno, ops>>  \* ids are fresh numbers: history variables nextId/nextBid/lastOp are hidden (ops stays: the depth bound must not depend on which path reached a state first)

\* action properties: what each call promises, stated on (state, next state)
Op == lastOp'[1]
PromiseFailureLeavesAll == [][ (ret' = NoBlock /\ Op \in {"malloc", "calloc"}) => ub' = ub /\ bb' = bb ]_mvars
PromiseReallocFailureKeepsOld == [][ (Op \in {"realloc", "reallocarray"} /\ ret' = NoBlock /\ lastOp'[2] # NoBlock /\ errno' = ENOMEM) => ub' = ub /\ bb' = bb ]_mvars
PromiseReallocKeepsContent == [][ (Op \in {"realloc", "reallocarray"} /\ ret' # NoBlock /\ lastOp'[2] # NoBlock) => ub'[ret'].tag = ub[lastOp'[2]].tag ]_mvars
PromiseCallocZero == [][ (Op = "calloc" /\ ret' # NoBlock) => ub'[ret'].zero /\ ub'[ret'].size = lastOp'[2] * lastOp'[3] ]_mvars
PromiseOverflowRefused == [][ (Op = "calloc" /\ lastOp'[2] # 0 /\ lastOp'[2] * lastOp'[3] > SizeMax) => ret' = NoBlock /\ errno' = ENOMEM ]_mvars
PromiseSizeZeroFrees == [][ (Op = "realloc" /\ lastOp'[2] # NoBlock /\ lastOp'[3] = 0) => ret' = NoBlock /\ lastOp'[2] \notin DOMAIN ub' ]_mvars
PromiseFullSize == [][ (ret' # NoBlock /\ Op = "malloc") => ub'[ret'].size = lastOp'[2] ]_mvars
=============================================================================
