----------------------------- MODULE UriSession -----------------------------
(* The object-level machine (C07, C12, and the history side of C11/C13).     *)
(* State: caller text buffers and URI slots.  A slot holds an abstract URI    *)
(* value, the owner flag, and WHAT ITS TEXT RANGES POINT INTO: caller buffers *)
(* (a parsed URI borrows from its input; a resolved or created reference      *)
(* shares ranges with its operands) or the heap text of another, owning slot. *)
(* Each public call is one action whose linearization point is its return.    *)
(* Scribble / Release of a buffer and Free / in-place normalization of an     *)
(* owning slot are always possible; they invalidate exactly the slots that    *)
(* still borrow from what changed.  The properties:                           *)
(*   C12  owner => nothing borrowed; MakeOwner keeps the value; a slot that   *)
(*        borrows nothing from a buffer is unaffected by what happens to it   *)
(*        (an Observe of any usable slot returns the value the machine holds);*)
(*   C07  every value a slot ever holds reads back as held (Stable), in fact  *)
(*        has the structure parsing its text yields (Structural: C11).        *)
(* The step operators are pure functions on the session state so that the     *)
(* model (MC_Session) and the trace specification (Trace_Session) use the     *)
(* same definitions.                                                          *)
EXTENDS UriRelativize, UriNormalize, FiniteSets

NilVal == [sc |-> None, ui |-> None, hk |-> "none", ht |-> <<>>, hb |-> <<>>, po |-> None, abs |-> FALSE, segs |-> <<>>, q |-> None, f |-> None]
EmptySlot == [held |-> FALSE, val |-> NilVal, owner |-> FALSE, deps |-> {}, valid |-> FALSE]
NoBuf == [live |-> FALSE, text |-> <<>>]

BufDep(i) == <<"b", i>>
SlotDep(s) == <<"s", s>>

SessionInit(Slots, Bufs) == [slot |-> [s \in Slots |-> EmptySlot], buf |-> [i \in Bufs |-> NoBuf]]

\* ------------------------------------------------------------------ helpers
Usable(st, s) == st.slot[s].held /\ st.slot[s].valid
\* what a URI that copies RANGES (not text) from slot s depends on
DepsOf(st, s) == IF st.slot[s].owner THEN {SlotDep(s)} ELSE st.slot[s].deps
\* everything that borrows from d stops being usable (only Free may still be applied to it)
Invalidate(sl, d) == [s \in DOMAIN sl |-> IF d \in sl[s].deps THEN [sl[s] EXCEPT !.valid = FALSE] ELSE sl[s]]
Put(st, s, v, own, deps) == [st EXCEPT !.slot[s] = [held |-> TRUE, val |-> v, owner |-> own, deps |-> deps, valid |-> TRUE]]

\* ------------------------------------------------------------------ enabling conditions
CanBuf(st, i)            == ~st.buf[i].live
CanParse(st, s, i)       == ~st.slot[s].held /\ st.buf[i].live
CanMakeOwner(st, s)      == Usable(st, s)
CanNormalize(st, s)      == Usable(st, s)
CanAddBase(st, d, r, b)  == ~st.slot[d].held /\ Usable(st, r) /\ Usable(st, b) /\ d # r /\ d # b
CanRemoveBase(st, d, s, b) == CanAddBase(st, d, s, b)
CanFree(st, s)           == st.slot[s].held
CanScribble(st, i)       == st.buf[i].live
CanObserve(st, s)        == Usable(st, s)

\* ------------------------------------------------------------------ steps (pure)
DoBuf(st, i, t) == [st EXCEPT !.buf[i] = [live |-> TRUE, text |-> t]]
\* uriParseSingleUri on buffer i: on a syntax error the slot stays empty
DoParse(st, s, i) ==
  LET t == st.buf[i].text IN
  IF Accepts(t) THEN Put(st, s, Components(t), FALSE, {BufDep(i)}) ELSE st
\* uriMakeOwner: same value, own copies of all text
DoMakeOwner(st, s) == [st EXCEPT !.slot[s].owner = TRUE, !.slot[s].deps = {}]
\* uriNormalizeSyntaxEx: mask 0 changes nothing, not even ownership; ANY other mask - also one whose bits name no component -
\* leaves the slot owning its text (C12: "after normalization with any non-zero mask").
\* An owning slot is transformed in place, so whatever borrowed its text is invalidated.
DoNormalizeTo(st, s, m, v) ==
  IF m = 0 THEN st
  ELSE LET sl == IF st.slot[s].owner THEN Invalidate(st.slot, SlotDep(s)) ELSE st.slot IN
       Put([st EXCEPT !.slot = sl], s, v, TRUE, {})
DoNormalize(st, s, m) == DoNormalizeTo(st, s, m, Normalize(st.slot[s].val, m % 64))
\* uriAddBaseUriEx: the target shares the ranges of both operands
AddBaseRc(st, b) == IF HasScheme(st.slot[b].val) THEN 0 ELSE RC_ADDBASE_REL_BASE
DoAddBaseTo(st, d, r, b, v) ==
  IF AddBaseRc(st, b) # 0 THEN st ELSE Put(st, d, v, FALSE, DepsOf(st, r) \cup DepsOf(st, b))
DoAddBase(st, d, r, b, opt) == DoAddBaseTo(st, d, r, b, ResolveT(st.slot[r].val, st.slot[b].val, opt))
\* uriRemoveBaseUri: a relation; the model uses the function inside it, the trace specification the recorded reference
RemoveBaseRc(st, s, b) == IF ~HasScheme(st.slot[b].val) THEN RC_REMOVEBASE_REL_BASE ELSE IF ~HasScheme(st.slot[s].val) THEN RC_REMOVEBASE_REL_SOURCE ELSE 0
DoRemoveBaseTo(st, d, s, b, v) ==
  IF RemoveBaseRc(st, s, b) # 0 THEN st ELSE Put(st, d, v, FALSE, DepsOf(st, s))
DoRemoveBase(st, d, s, b, mode) == DoRemoveBaseTo(st, d, s, b, RelativizeIdeal(st.slot[s].val, st.slot[b].val, mode))
\* uriFreeUriMembers: whatever borrowed this slot's own text is invalidated
DoFree(st, s) == [st EXCEPT !.slot = [Invalidate(st.slot, SlotDep(s)) EXCEPT ![s] = EmptySlot]]
\* the caller overwrites or releases a text buffer
DoScribble(st, i) == [st EXCEPT !.buf[i] = NoBuf, !.slot = Invalidate(st.slot, BufDep(i))]

\* ------------------------------------------------------------------ properties of a session state
\* C12: an owner borrows nothing; a usable slot's dependencies are all alive
OwnerIndependent(st) == \A s \in DOMAIN st.slot : st.slot[s].held /\ st.slot[s].owner => st.slot[s].deps = {}
DepAlive(st, d) == IF d[1] = "b" THEN st.buf[d[2]].live ELSE st.slot[d[2]].held /\ st.slot[d[2]].owner
DepsAlive(st) == \A s \in DOMAIN st.slot : Usable(st, s) => \A d \in st.slot[s].deps : DepAlive(st, d)
\* C07 / C11: every held value reads back as held, in the structure parsing yields
AllStable(st) == \A s \in DOMAIN st.slot : st.slot[s].held => Structural(st.slot[s].val) /\ WellFormedV(st.slot[s].val)
=============================================================================
