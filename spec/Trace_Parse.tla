---------------------------- MODULE Trace_Parse ----------------------------
(* Validates recorded parse executions (events "Parse") against the         *)
(* specification: C01 (language, error position), C02 (components, host     *)
(* kind and bytes, well-formedness), C03 (ranges inside the input, nothing  *)
(* left allocated on failure, repeated free harmless), C04 (recomposition). *)
EXTENDS TraceCore, UriLanguage, UriValue, UriLedger

\* a logged span <<kind, off, len>> against the specification span <<start, len>>
SpanOK(js, sp, n) ==
  IF sp = NoSpan THEN js[1] = 0
  ELSE IF sp[2] = 0 THEN js[1] = 2 \/ (js[1] = 1 /\ js[3] = 0 /\ js[2] \in 0..n)   \* empty: placeholder or anywhere inside
  ELSE js = <<1, sp[1] - 1, sp[2]>>
SpansOK(j, sp, n) ==
  /\ SpanOK(j.sc, sp.sc, n) /\ SpanOK(j.ui, sp.ui, n) /\ SpanOK(j.ht, sp.ht, n) /\ SpanOK(j.po, sp.po, n)
  /\ SpanOK(j.q, sp.q, n) /\ SpanOK(j.f, sp.f, n)
  /\ Len(j.segs) = Len(sp.segs) /\ \A i \in 1..Len(j.segs) : SpanOK(j.segs[i], sp.segs[i], n)
SpanInside(js) == js[1] \in {0, 1, 2}
SpansInside(j) == /\ SpanInside(j.sc) /\ SpanInside(j.ui) /\ SpanInside(j.ht) /\ SpanInside(j.po)
                  /\ SpanInside(j.q) /\ SpanInside(j.f) /\ \A i \in 1..Len(j.segs) : SpanInside(j.segs[i])

VParse(x) ==
  LET s   == x.in
      acc == Accepts(s)
      ok  == x.rc = 0
  IN  \* ---- C01
      FailIf(ok # acc, "C01", IF acc THEN "valid URI reference rejected" ELSE "invalid text accepted")
   \o FailIf(~acc /\ ~ok /\ x.rc # 1, "C01", "rejected with a code other than URI_ERROR_SYNTAX")
   \o FailIf(~acc /\ x.rc = 1 /\ x.epos \notin ErrPosSet(s), "C01", "error position not the first character after which no completion exists")
      \* ---- C02 / C03 / C04 on success
   \o (IF ok /\ acc THEN
         LET v == Components(s) IN
            FailIf(ValOf(x.val) # v, "C02", "components differ from the RFC 3986 split")
         \o FailIf(~WfOf(x.val), "C02", "structure not well formed")
         \o FailIf(~SpansOK(x.spans, CompSpans(s), Len(s)), "C02", "component ranges are not the grammar's sub-ranges")
         \o FailIf(~SpansInside(x.spans), "C03", "a reported range lies outside the input")
         \o FailIf(x.str # Some(Recompose(v)), "C04", "recomposed text differs")
         \o FailIf(x.strown # Some(Recompose(v)), "C04", "recomposed text of the owned copy differs")
         \o FailIf(x.eqre # 1, "C04", "re-parsed text not equal to the first URI")
       ELSE <<>>)
      \* ---- C03: nothing left allocated after a failure; freeing again frees nothing
   \o (IF ~ok THEN FailIf(~Balanced(Ledger(x.mem)), "C03", "blocks left allocated (or wrongly released) after a failed parse") ELSE <<>>)
   \o FailIf(~NoFrees(x.refree), "C03", "repeated free-members released something")
   \o FailIf(x.fault # 0, "C03", "memory fault during the call")
   \o FailIf(x.fault # 0 /\ acc, "C02", "memory fault while parsing a valid URI reference: no components were delivered")

\* the stand-alone IPv4 parser: succeeds exactly on IPv4address (RFC 3986), with the octets by value; never reads outside the range
VIp4(x) == LET ok == Matches("IPv4address", x.in) IN
     FailIf(x.fault # 0, "C03", "uriParseIpFourAddress read outside the range")
  \o FailIf(x.fault = 0 /\ (x.rc = 0) # ok, "C02", "uriParseIpFourAddress accepts something else than IPv4address")
  \o FailIf(x.fault = 0 /\ ok /\ x.rc = 0 /\ x.bytes # Ip4Bytes(x.in), "C02", "uriParseIpFourAddress: octet values differ")
V(x) == IF x.e = "Parse" THEN VParse(x) ELSE IF x.e = "Ip4" THEN VIp4(x) ELSE Fail("C01", "unknown event")
TNext == TStep(V)
=============================================================================
