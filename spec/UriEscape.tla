------------------------------ MODULE UriEscape ------------------------------
(* Percent-escaping (C16).  Escape is a one-state-bit transducer (prevWasCr);  *)
(* unescape is a two-cursor in-place machine (MC_Unescape models the cursors;  *)
(* here is its function view).                                                *)
EXTENDS UriChars

\* ---------------------------------------------------------------- escape
PctUp(c) == <<cPCT, HexUpChar((c % 256) \div 16), HexUpChar(c % 16)>>
CRLFEsc == <<37,48,68,37,48,65>>                   \* %0D%0A
\* one transition: [out, cr']
EscapeStep(cr, c, sp, nb) ==
  IF c \in UNRES THEN [out |-> <<c>>, cr |-> FALSE]
  ELSE IF c = cSP THEN [out |-> IF sp THEN <<cPLUS>> ELSE <<37,50,48>>, cr |-> FALSE]
  ELSE IF c = cLF THEN [out |-> IF nb THEN (IF cr THEN <<>> ELSE CRLFEsc) ELSE <<37,48,65>>, cr |-> FALSE]
  ELSE IF c = cCR THEN [out |-> IF nb THEN CRLFEsc ELSE <<37,48,68>>, cr |-> TRUE]
  ELSE [out |-> PctUp(c), cr |-> FALSE]
RECURSIVE EscapeFrom(_,_,_,_,_)
EscapeFrom(s, i, cr, sp, nb) ==
  IF i > Len(s) THEN <<>>
  ELSE LET t == EscapeStep(cr, s[i], sp, nb) IN t.out \o EscapeFrom(s, i+1, t.cr, sp, nb)
Escape(s, sp, nb) == EscapeFrom(s, 1, FALSE, sp, nb)

\* every line break (CR LF, CR, LF) turned into CR LF
RECURSIVE NormBreaks(_,_)
NormBreaks(s, i) ==
  IF i > Len(s) THEN <<>>
  ELSE IF s[i] = cCR THEN <<cCR, cLF>> \o NormBreaks(s, IF i < Len(s) /\ s[i+1] = cLF THEN i+2 ELSE i+1)
  ELSE IF s[i] = cLF THEN <<cCR, cLF>> \o NormBreaks(s, i+1)
  ELSE <<s[i]>> \o NormBreaks(s, i+1)

\* ---------------------------------------------------------------- unescape (function view)
\* conv: 0 to LF, 1 to CRLF, 2 to CR, 3 don't touch   (UriBreakConversion)
BreakOut(conv) == CASE conv = 0 -> <<cLF>> [] conv = 1 -> <<cCR, cLF>> [] conv = 2 -> <<cCR>> [] OTHER -> <<>>
IsHex(s, i) == i <= Len(s) /\ s[i] \in HEXDIG
RECURSIVE UnescapeFrom(_,_,_,_,_)
UnescapeFrom(s, i, cr, ps, conv) ==
  IF i > Len(s) THEN <<>>
  ELSE IF s[i] = cPCT THEN
    IF IsHex(s, i+1) THEN
      IF IsHex(s, i+2) THEN
        LET code == HexVal(s[i+1]) * 16 + HexVal(s[i+2]) IN
        IF code = 10 THEN (IF conv = 3 THEN <<cLF>> ELSE IF cr THEN <<>> ELSE BreakOut(conv)) \o UnescapeFrom(s, i+3, FALSE, ps, conv)
        ELSE IF code = 13 THEN (IF conv = 3 THEN <<cCR>> ELSE BreakOut(conv)) \o UnescapeFrom(s, i+3, TRUE, ps, conv)
        ELSE <<code>> \o UnescapeFrom(s, i+3, FALSE, ps, conv)
      ELSE <<s[i], s[i+1]>> \o UnescapeFrom(s, i+2, FALSE, ps, conv)        \* malformed: "%" + one hex digit copied, third looked at again
    ELSE <<s[i]>> \o UnescapeFrom(s, i+1, FALSE, ps, conv)                    \* malformed: lone "%"
  ELSE IF s[i] = cPLUS THEN <<IF ps THEN cSP ELSE cPLUS>> \o UnescapeFrom(s, i+1, FALSE, ps, conv)
  ELSE <<s[i]>> \o UnescapeFrom(s, i+1, FALSE, ps, conv)
Unescape(s, ps, conv) == UnescapeFrom(s, 1, FALSE, ps, conv)

EscapeAlphabetOK(t, sp) == \A i \in 1..Len(t) : t[i] \in UNRES \/ t[i] = cPCT \/ t[i] \in DIGIT \/ t[i] \in HEXUP \/ (sp /\ t[i] = cPLUS)
=============================================================================
