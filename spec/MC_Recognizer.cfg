INIT MCInit
NEXT MCNext
VIEW MCView
INVARIANT Agree
INVARIANT Completable
PROPERTY LiteralRegion
CHECK_DEADLOCK FALSE
