---------------------------- MODULE Trace_Threads ----------------------------
(* C20, conformance side.  The library has no state of its own, so a history   *)
(* of concurrent calls on private outputs is linearizable iff every call       *)
(* returns what the same call returns when run alone (UriThreads:              *)
(* ResultsSequential).  A TCall event carries thread id, per-thread sequence    *)
(* number, the call's key, its result, and the result of the same call made by  *)
(* one thread before the others started.  TShared: the shared inputs (mapped    *)
(* read-only during the run) are byte-identical afterwards (NoInputWrite).      *)
EXTENDS TraceCore

VCall(x) == FailX(x.res # x.alone, "C20", "a call made concurrently with others returned something else than the same call run alone", [fn |-> x.fn, key |-> x.key])
V(x) == CASE x.e = "TCall" -> VCall(x)
          [] x.e = "TShared" -> FailIf(~x.same, "C20", "shared read-only inputs were modified during the concurrent run")
          [] OTHER -> Fail("C20", "unknown event")
TNext == TStep(V)
=============================================================================
