--------------------------- MODULE MC_RfcExamples ---------------------------
EXTENDS RfcExamples
VARIABLE x
Init == x = 0
Next == UNCHANGED x
=============================================================================
