------------------------------ MODULE Trace_File ------------------------------
(* C18: recorded filename <-> URI string conversions against UriFile.          *)
EXTENDS TraceCore, UriFile, UriLanguage

VFileRound(x) ==
  LET dom == IF x.unix THEN UnixDomain(x.name) ELSE WinDomain(x.name)
      u == ToUri(x.name, x.unix) IN
     FailIf(x.f1 # 0, "C18", "the URI string does not fit the documented 7+3n+1 / 8+3n+1 characters (guard page hit)")
  \o FailIf(x.f1 = 0 /\ (x.rc1 # 0 \/ ~x.term1 \/ x.uri # u), "C18", "URI string differs from the specification")
  \o FailIf(dom /\ x.f1 = 0 /\ x.term1 /\ (x.prc # 0 \/ ~Accepts(x.uri)), "C18", "the URI string produced is not a valid RFC 3986 URI reference")
  \o FailIf(x.f2 # 0, "C18", "the filename does not fit the documented length (guard page hit)")
  \o FailIf(x.f1 = 0 /\ x.term1 /\ x.f2 = 0 /\ (x.rc2 # 0 \/ ~x.term2 \/ x.back # CStr(ToFilename(x.uri, x.unix))), "C18", "filename produced from the URI string differs from the specification")
  \o FailIf(dom /\ x.f1 = 0 /\ x.f2 = 0 /\ x.back # x.name, "C18", "converting to a URI string and back does not return the filename")
VUriToFile(x) ==
     FailIf(x.f2 # 0, "C18", "the filename does not fit the documented length (guard page hit)")
  \o FailIf(x.f2 = 0 /\ (x.rc2 # 0 \/ ~x.term2 \/ x.back # CStr(ToFilename(x.uri, x.unix))), "C18", "filename produced from the URI string differs from the specification")
V(x) == CASE x.e = "FileRound" -> VFileRound(x) [] x.e = "UriToFile" -> VUriToFile(x) [] OTHER -> Fail("C18", "unknown event")
TNext == TStep(V)
=============================================================================
