------------------------------ MODULE UriValue ------------------------------
(* The abstract URI value and its relation to text.                         *)
(*   Components(s)  : text -> value      (RFC 3986 Appendix B split, done    *)
(*                    independently of the LL(1) strategy the code uses)     *)
(*   Recompose(v)   : value -> text      (RFC 3986 section 5.3)              *)
(* A value is a record                                                       *)
(*   [sc, ui, hk, ht, hb, po, abs, segs, q, f]                               *)
(*   sc/ui/po/q/f : option of text (<<>> absent, <<t>> present)              *)
(*   hk : "none" | "reg" | "ip4" | "ip6" | "fut";  ht : host text without    *)
(*   brackets;  hb : address bytes (4 or 16, else <<>>);  abs : BOOLEAN;     *)
(*   segs : sequence of texts.                                               *)
(* The field names are those of the harness projection (DESIGN App. A), so   *)
(* logged objects and specification values are compared directly.            *)
EXTENDS UriGrammar, SequencesExt

\* ---------------------------------------------------------------- spans
\* A span is <<start, len>> (1-based start) or <<0,0>> for "absent".
NoSpan == <<0, 0>>
Span(a, b) == <<a, b - a + 1>>            \* characters a..b (b = a-1 gives the empty span at a)
SpanText(s, sp) == IF sp = NoSpan THEN None ELSE Some(Sub(s, sp[1], sp[1] + sp[2] - 1))
SpanTxt(s, sp)  == Sub(s, sp[1], sp[1] + sp[2] - 1)

\* spans of the pieces of s[a..b] separated by c
RECURSIVE SplitSpans(_,_,_,_)
SplitSpans(s, a, b, c) ==
  LET k == IndexFrom(Sub(s, 1, b), c, a) IN
  IF k = 0 THEN << Span(a, b) >> ELSE << Span(a, k-1) >> \o SplitSpans(s, k+1, b, c)

CompSpans(s) ==
  LET n   == Len(s)
      h   == Idx(s, cHASH)
      e1  == IF h = 0 THEN n ELSE h - 1
      qm  == Idx(Sub(s, 1, e1), cQM)
      e2  == IF qm = 0 THEN e1 ELSE qm - 1
      s2  == Sub(s, 1, e2)
      c   == Idx(s2, cCOLON)
      sl  == Idx(s2, cSL)
      hasScheme == c > 1 /\ (sl = 0 \/ c < sl)
      p0  == IF hasScheme THEN c + 1 ELSE 1
      hasAuth == e2 >= p0 + 1 /\ s[p0] = cSL /\ s[p0+1] = cSL
      a0  == p0 + 2
      aEnd == IF hasAuth THEN LET k == IndexFrom(s2, cSL, a0) IN IF k = 0 THEN e2 ELSE k - 1 ELSE 0
      auth == Sub(s, 1, aEnd)                       \* prefix ending with the authority
      at  == IF hasAuth THEN IndexFrom(auth, cAT, a0) ELSE 0
      hp0 == IF at = 0 THEN a0 ELSE at + 1
      br  == hasAuth /\ hp0 <= aEnd /\ s[hp0] = cLB
      rb  == IF br THEN IndexFrom(auth, cRB, hp0) ELSE 0
      pc  == IF hasAuth /\ ~br THEN IndexFrom(auth, cCOLON, hp0) ELSE 0
      hostSp == IF ~hasAuth THEN NoSpan
                ELSE IF br THEN Span(hp0 + 1, rb - 1)
                ELSE Span(hp0, IF pc = 0 THEN aEnd ELSE pc - 1)
      portSp == IF ~hasAuth THEN NoSpan
                ELSE IF br THEN (IF rb < aEnd THEN Span(rb + 2, aEnd) ELSE NoSpan)
                ELSE (IF pc = 0 THEN NoSpan ELSE Span(pc + 1, aEnd))
      pp  == IF hasAuth THEN aEnd + 1 ELSE p0        \* path = s[pp..e2]
      pathEmpty == pp > e2
      abs == ~hasAuth /\ ~pathEmpty /\ s[pp] = cSL
      segSp == IF pathEmpty THEN <<>>
               ELSE IF hasAuth THEN SplitSpans(s, pp + 1, e2, cSL)
               ELSE IF abs THEN (IF pp = e2 THEN <<>> ELSE SplitSpans(s, pp + 1, e2, cSL))
               ELSE SplitSpans(s, pp, e2, cSL)
  IN [ sc   |-> IF hasScheme THEN Span(1, c - 1) ELSE NoSpan,
       ui   |-> IF at = 0 THEN NoSpan ELSE Span(a0, at - 1),
       ht   |-> hostSp,
       br   |-> br,
       po   |-> portSp,
       abs  |-> abs,
       segs |-> segSp,
       q    |-> IF qm = 0 THEN NoSpan ELSE Span(qm + 1, e1),
       f    |-> IF h = 0 THEN NoSpan ELSE Span(h + 1, n) ]

\* ---------------------------------------------------------------- IP address values
RECURSIVE DecVal(_,_)
DecVal(t, acc) == IF t = <<>> THEN acc ELSE DecVal(Tail(t), acc * 10 + (Head(t) - 48))
RECURSIVE HexNum(_,_)
HexNum(t, acc) == IF t = <<>> THEN acc ELSE HexNum(Tail(t), acc * 16 + HexVal(Head(t)))

Ip4Bytes(t) == LET p == SplitOn(t, cDOT) IN [i \in 1..4 |-> DecVal(p[i], 0)]

\* bytes of a sequence of ":"-separated groups whose last one may be an IPv4 address
RECURSIVE GroupBytes(_)
GroupBytes(groups) ==
  IF groups = <<>> THEN <<>>
  ELSE LET g == Head(groups) IN
       IF Has(g, cDOT) THEN Ip4Bytes(g)
       ELSE LET v == HexNum(g, 0) IN << v \div 256, v % 256 >> \o GroupBytes(Tail(groups))
Groups(t) == IF t = <<>> THEN <<>> ELSE SplitOn(t, cCOLON)
RECURSIVE DoubleColon(_,_)
DoubleColon(t, i) == IF i + 1 > Len(t) THEN 0 ELSE IF t[i] = cCOLON /\ t[i+1] = cCOLON THEN i ELSE DoubleColon(t, i+1)
Zeros(n) == [i \in 1..n |-> 0]
Ip6Bytes(t) ==
  LET z == DoubleColon(t, 1) IN
  IF z = 0 THEN GroupBytes(Groups(t))
  ELSE LET l == GroupBytes(Groups(Sub(t, 1, z-1)))
           r == GroupBytes(Groups(From(t, z+2)))
       IN l \o Zeros(16 - Len(l) - Len(r)) \o r

\* ---------------------------------------------------------------- Components
Components(s) ==
  LET sp == CompSpans(s)
      ht == IF sp.ht = NoSpan THEN <<>> ELSE SpanTxt(s, sp.ht)
      hk == IF sp.ht = NoSpan THEN "none"
            ELSE IF sp.br THEN (IF Matches("IPvFuture", ht) THEN "fut" ELSE "ip6")
            ELSE IF Matches("IPv4address", ht) THEN "ip4" ELSE "reg"
  IN [ sc |-> SpanText(s, sp.sc), ui |-> SpanText(s, sp.ui),
       hk |-> hk, ht |-> ht,
       hb |-> IF hk = "ip4" THEN Ip4Bytes(ht) ELSE IF hk = "ip6" THEN Ip6Bytes(ht) ELSE <<>>,
       po |-> SpanText(s, sp.po), abs |-> sp.abs,
       segs |-> [i \in 1..Len(sp.segs) |-> SpanTxt(s, sp.segs[i])],
       q |-> SpanText(s, sp.q), f |-> SpanText(s, sp.f) ]

HasHost(v) == v.hk # "none"
HasScheme(v) == IsSome(v.sc)

\* ---------------------------------------------------------------- Recompose (RFC 3986 section 5.3)
RECURSIVE DecText(_)
DecText(n) == IF n < 10 THEN <<48 + n>> ELSE DecText(n \div 10) \o <<48 + (n % 10)>>
Ip4Text(b) == DecText(b[1]) \o <<cDOT>> \o DecText(b[2]) \o <<cDOT>> \o DecText(b[3]) \o <<cDOT>> \o DecText(b[4])
HexByteLo(n) == << HexLoChar(n \div 16), HexLoChar(n % 16) >>
RECURSIVE Ip6TextFrom(_,_)
Ip6TextFrom(b, i) == IF i > 16 THEN <<>>
  ELSE HexByteLo(b[i]) \o HexByteLo(b[i+1]) \o (IF i < 15 THEN <<cCOLON>> ELSE <<>>) \o Ip6TextFrom(b, i+2)
Ip6Text(b) == Ip6TextFrom(b, 1)

HostText(v) ==
  CASE v.hk = "ip4" -> Ip4Text(v.hb)
    [] v.hk = "ip6" -> <<cLB>> \o Ip6Text(v.hb) \o <<cRB>>
    [] v.hk = "fut" -> <<cLB>> \o v.ht \o <<cRB>>
    [] OTHER -> v.ht

PathText(hasHost, abs, segs) ==
  IF hasHost THEN (IF segs = <<>> THEN <<>> ELSE <<cSL>> \o Join(segs, cSL))
  ELSE (IF abs THEN <<cSL>> ELSE <<>>) \o Join(segs, cSL)
PathOf(v) == PathText(HasHost(v), v.abs, v.segs)

Recompose(v) ==
  (IF IsSome(v.sc) THEN v.sc[1] \o <<cCOLON>> ELSE <<>>)
  \o (IF HasHost(v) THEN <<cSL, cSL>> \o (IF IsSome(v.ui) THEN v.ui[1] \o <<cAT>> ELSE <<>>)
                          \o HostText(v) \o (IF IsSome(v.po) THEN <<cCOLON>> \o v.po[1] ELSE <<>>)
      ELSE <<>>)
  \o PathOf(v)
  \o (IF IsSome(v.q) THEN <<cQM>> \o v.q[1] ELSE <<>>)
  \o (IF IsSome(v.f) THEN <<cHASH>> \o v.f[1] ELSE <<>>)

\* the input with its IPv6 literal (if any) rewritten to the full lowercase form (C04)
CanonText(s) == Recompose(Components(s))

\* ---------------------------------------------------------------- relations between values
\* host compared by value for IP hosts, by text otherwise (C11)
HostKey(v) == IF v.hk \in {"ip4", "ip6"} THEN <<v.hk, v.hb>> ELSE <<v.hk, v.ht>>
Equal(a, b) == /\ a.sc = b.sc /\ a.ui = b.ui /\ HostKey(a) = HostKey(b) /\ a.po = b.po
               /\ a.abs = b.abs /\ a.segs = b.segs /\ a.q = b.q /\ a.f = b.f

\* same scheme, authority presence and parts, path TEXT, query, fragment (C07)
SameMeaning(a, b) == /\ a.sc = b.sc /\ a.ui = b.ui /\ HostKey(a) = HostKey(b) /\ a.po = b.po
                     /\ PathOf(a) = PathOf(b) /\ a.q = b.q /\ a.f = b.f

\* value-level well-formedness: what every object the library hands out must satisfy
WellFormedV(v) == /\ ~(HasHost(v) /\ v.abs)
                  /\ (v.hk = "ip4" => Len(v.hb) = 4) /\ (v.hk = "ip6" => Len(v.hb) = 16)
                  /\ (~HasHost(v) => v.ui = None /\ v.po = None)

Stable(v) == LET t == Recompose(v) IN Accepts(t) /\ SameMeaning(Components(t), v)
Structural(v) == LET t == Recompose(v) IN Accepts(t) /\ Equal(Components(t), v)

\* ---------------------------------------------------------------- reading logged objects
\* A logged `uri` object (JSON) -> value; abs is logged as 0/1.
ValOf(j) == [ sc |-> j.sc, ui |-> j.ui, hk |-> j.hk, ht |-> j.ht, hb |-> j.hb, po |-> j.po,
              abs |-> (j.abs = 1), segs |-> j.segs, q |-> j.q, f |-> j.f ]
WfOf(j) == j.wf.tail /\ j.wf.ranges /\ j.wf.hostabs /\ j.wf.hostdata
=============================================================================
