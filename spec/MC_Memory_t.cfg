INIT Init
NEXT Next
CONSTANTS SizeMax = 15  Hdr = 4  MaxLive = 3  MaxOps = 5
INVARIANT Disjoint
INVARIANT Backed
INVARIANT NoBackendLeak
PROPERTY PromiseFailureLeavesAll
PROPERTY PromiseReallocFailureKeepsOld
PROPERTY PromiseReallocKeepsContent
PROPERTY PromiseCallocZero
PROPERTY PromiseOverflowRefused
PROPERTY PromiseSizeZeroFrees
PROPERTY PromiseFullSize
CHECK_DEADLOCK FALSE
