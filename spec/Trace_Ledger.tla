------------------------------ MODULE Trace_Ledger ------------------------------
(* C13: one event per operation with its allocator logs by phase (set-up, call,    *)
(* matching release, repeated release).  mm = 0: recording manager supplied (libc   *)
(* must stay silent during the call); 1: default manager (wrapped libc is the       *)
(* ledger); 2: manager completed from malloc/free over a recording backend.         *)
EXTENDS TraceCore, UriLedger
RC_INCOMPLETE == 10
RECURSIVE FoldPhases(_,_,_,_)
FoldPhases(L, ph, i, useLibc) == IF i > Len(ph) THEN L ELSE FoldPhases(LedgerFrom(L, IF useLibc THEN ph[i].libc ELSE ph[i].mem), ph, i+1, useLibc)
VMmOp(x) ==
  LET useLibc == x.mm = 1
      L == FoldPhases(LedgerInit, x.phases, 1, useLibc)
      re == { i \in 1..Len(x.phases) : x.phases[i].name = "refree" } IN
     FailIf(x.mm # 1 /\ (\E i \in 1..Len(x.phases) : x.phases[i].libc # <<>>), "C13", "the C library allocator was used during a call that was given a memory manager")
  \o FailIf(x.mm = 1 /\ (\E i \in 1..Len(x.phases) : x.phases[i].mem # <<>>), "C13", "a manager other than the default one was used")
  \o FailIf(L.live # {} \/ (x.mm # 1 /\ x.leak # 0) \/ (x.mm = 1 /\ x.libcleak # 0), "C13", "blocks outstanding after the matching release call")
  \o FailIf(L.bad \/ x.bad, "C13", "a block was released twice, or with a pointer that the manager did not return")
  \o FailIf(\E i \in re : ~NoFrees(IF useLibc THEN x.phases[i].libc ELSE x.phases[i].mem), "C13", "freeing URI members again released something")
  \o FailIf(x.rc = RC_INCOMPLETE, "C13", "a complete manager was rejected as incomplete")
VIncomplete(x) ==
     FailIf(\E i \in 1..Len(x.rcs) : x.rcs[i] # RC_INCOMPLETE, "C13", "an incomplete manager was not rejected with URI_ERROR_MEMORY_MANAGER_INCOMPLETE")
  \o FailIf(x.mem # <<>> \/ x.libc # <<>>, "C13", "something was allocated or released although the manager is incomplete")
V(x) == CASE x.e = "MmOp" -> VMmOp(x) [] x.e = "MmIncomplete" -> VIncomplete(x) [] OTHER -> Fail("C13", "unknown event")
TNext == TStep(V)
=============================================================================
