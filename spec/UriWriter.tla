----------------------------- MODULE UriWriter -----------------------------
(* Bounded writers (C05, C17): a destination of `cap` cells followed by      *)
(* cells the writer must never touch.  The contract of a complete write of  *)
(* `text` into the destination is a relation on (cap, return code, reported *)
(* count, cells after the call); cells are logged for indices 0..cap+7 with *)
(* a known pre-fill so that an untouched cell is recognisable.              *)
EXTENDS Naturals, Integers, Sequences

PreFill == 238                      \* 0xEE, the harness fills the destination with it before the call
OK == 0   TOO_LARGE == 4   ERR_NULL == 2

\* cells is the logged sequence (1-based: cells[i] is destination index i-1)
Untouched(cells, from) == \A i \in 1..Len(cells) : (i - 1 >= from) => cells[i] = PreFill

\* the outcome of writing text (+ NUL) into cap cells, reporting `written` when asked
WriteOK(text, cap, rc, wantw, written, cells) ==
  LET n == Len(text) IN
  IF cap >= n + 1
  THEN /\ rc = OK
       /\ (wantw => written = n + 1)
       /\ \A i \in 1..n : cells[i] = text[i]
       /\ cells[n + 1] = 0
       /\ Untouched(cells, cap)
  ELSE /\ rc = TOO_LARGE
       /\ (wantw => written = 0)
       /\ (cap >= 1 => cells[1] = 0)
       /\ Untouched(cells, IF cap < 0 THEN 0 ELSE cap)
=============================================================================
