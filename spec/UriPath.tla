------------------------------ MODULE UriPath ------------------------------
(* The path algebra shared by resolution, normalization and reference        *)
(* creation (C06..C11): dot-segment removal on segment lists, the RFC 3986   *)
(* 5.2.3 merge, and the canonical structure of a path in its context         *)
(* (DESIGN section 2.2: exactly one of the structures with a given text is   *)
(* the one parsing that text yields; every value the specification produces  *)
(* is kept in it).  The literal text-level algorithms of RFC 3986 5.2.3 /    *)
(* 5.2.4 are transcribed separately as cross-check oracles.                  *)
EXTENDS UriValue

DOT == <<46>>
DOTDOT == <<46, 46>>
EMPTY == <<>>

\* ---------------------------------------------------------------- dot removal: left fold with an output stack
\* relative = the path belongs to a relative-path reference (no scheme, no host, not absolute):
\* there a ".." with nothing to pop is kept.  A trailing removed dot segment leaves an empty last segment.
RECURSIVE DotFold(_,_,_,_)
DotFold(segs, out, relative, trailing) ==
  IF segs = <<>> THEN [out |-> out, trailing |-> trailing]
  ELSE LET x == Head(segs)  r == Tail(segs) IN
    IF x = DOT THEN DotFold(r, out, relative, TRUE)
    ELSE IF x = DOTDOT THEN
      IF relative /\ (out = <<>> \/ Last(out) = DOTDOT) THEN DotFold(r, Append(out, x), relative, FALSE)
      ELSE DotFold(r, IF out = <<>> THEN out ELSE Front(out), relative, TRUE)
    ELSE DotFold(r, Append(out, x), relative, FALSE)
RemoveDots(segs, relative) ==
  LET f == DotFold(segs, <<>>, relative, FALSE) IN
  IF f.trailing THEN Append(f.out, EMPTY) ELSE f.out

\* ---------------------------------------------------------------- canonical structure of (abs, segs) in its context
IsRelPathRef(v) == ~HasScheme(v) /\ ~HasHost(v) /\ ~v.abs
Canon(v) ==
  LET hh == HasHost(v)
      hs == HasScheme(v)
      abs1  == IF hh THEN FALSE ELSE v.abs
      \* rule 1: host + absolute flag + no segments: the lone "/" is one empty segment
      segs1 == IF hh /\ v.abs /\ v.segs = <<>> THEN <<EMPTY>> ELSE v.segs
      \* rule 2: host-less lone empty segment is dropped
      segs2 == IF ~hh /\ segs1 = <<EMPTY>> THEN <<>> ELSE segs1
      \* rule 5a: scheme, rootless structure whose text begins with "/": same text, absolute structure
      re5   == ~hh /\ ~abs1 /\ hs /\ Len(segs2) >= 2 /\ segs2[1] = EMPTY
      abs2  == IF re5 THEN TRUE ELSE abs1
      segs3 == IF re5 THEN Tail(segs2) ELSE segs2
      segs4 == IF ~hh /\ segs3 = <<EMPTY>> THEN <<>> ELSE segs3
      \* rule 3: host-less absolute path whose text would begin with "//"
      need3 == ~hh /\ abs2 /\ segs4 # <<>> /\ segs4[1] = EMPTY
      \* rule 4: relative-path reference whose first segment contains ":"
      need4 == ~hh /\ ~abs2 /\ ~hs /\ segs4 # <<>> /\ Has(segs4[1], cCOLON)
      \* rule 5b: relative-path reference whose text would begin with "/"
      need5 == ~hh /\ ~abs2 /\ ~hs /\ Len(segs4) >= 2 /\ segs4[1] = EMPTY
  IN [v EXCEPT !.abs = abs2, !.segs = IF need3 \/ need4 \/ need5 THEN <<DOT>> \o segs4 ELSE segs4]

\* ---------------------------------------------------------------- RFC 3986 5.2.3 merge, on values
MergeV(B, R) ==
  IF HasHost(B) /\ B.segs = <<>> THEN [abs |-> TRUE, segs |-> R.segs]
  ELSE [abs |-> B.abs \/ HasHost(B), segs |-> (IF B.segs = <<>> THEN <<>> ELSE Front(B.segs)) \o R.segs]

\* ================================================================ literal text-level oracles (RFC 3986 5.2.3, 5.2.4)
StartsWith(t, p) == Len(t) >= Len(p) /\ SubSeq(t, 1, Len(p)) = p
\* remove the last segment and its preceding "/" (if any) from the output buffer
DropLastSeg(out) == LET k == LastIdx(out, cSL) IN IF k = 0 THEN <<>> ELSE Sub(out, 1, k - 1)
\* first path segment of the input buffer, including the initial "/" if any, up to (not including) the next "/"
FirstSegLen(inp) == LET k == IndexFrom(inp, cSL, 2) IN IF k = 0 THEN Len(inp) ELSE k - 1
RECURSIVE RfcRDS(_,_)
RfcRDS(inp, out) ==
  IF inp = <<>> THEN out
  ELSE IF StartsWith(inp, <<46,46,47>>) THEN RfcRDS(From(inp, 4), out)                          \* A  "../"
  ELSE IF StartsWith(inp, <<46,47>>) THEN RfcRDS(From(inp, 3), out)                             \* A  "./"
  ELSE IF StartsWith(inp, <<47,46,47>>) THEN RfcRDS(<<47>> \o From(inp, 4), out)                \* B  "/./"
  ELSE IF inp = <<47,46>> THEN RfcRDS(<<47>>, out)                                              \* B  "/."
  ELSE IF StartsWith(inp, <<47,46,46,47>>) THEN RfcRDS(<<47>> \o From(inp, 5), DropLastSeg(out)) \* C  "/../"
  ELSE IF inp = <<47,46,46>> THEN RfcRDS(<<47>>, DropLastSeg(out))                              \* C  "/.."
  ELSE IF inp = <<46>> \/ inp = <<46,46>> THEN RfcRDS(<<>>, out)                                \* D
  ELSE LET n == FirstSegLen(inp) IN RfcRDS(From(inp, n + 1), out \o Sub(inp, 1, n))             \* E
RfcRemoveDotSegments(path) == RfcRDS(path, <<>>)

RfcMerge(baseHasAuth, basePath, refPath) ==
  IF baseHasAuth /\ basePath = <<>> THEN <<cSL>> \o refPath
  ELSE LET k == LastIdx(basePath, cSL) IN Sub(basePath, 1, k) \o refPath
=============================================================================
