----------------------------- MODULE TraceCore -----------------------------
(* Common machinery of every trace specification.  A trace is an ND-JSON    *)
(* file of events recorded from the real library (one event per public      *)
(* call, written at its return).  The trace spec consumes one event per     *)
(* step; V(x) is the list of clauses the event violates (empty: the event   *)
(* is a behaviour the specification allows).  Rejected events are written   *)
(* to the REJ file and validation continues, so that one defect does not    *)
(* hide the rest of the trace.  A final marker proves the whole trace was   *)
(* consumed.                                                                *)
EXTENDS Naturals, Sequences, TLC, Json, IOUtils, CSV

VARIABLE l
Tr == ndJsonDeserialize(IOEnv.TRACE)
RejOut(rec) == CSVWrite("%1$s", <<ToJson(rec)>>, IOEnv.REJ)

Fail(p, why) == << [p |-> p, why |-> why] >>
FailIf(cond, p, why) == IF cond THEN Fail(p, why) ELSE <<>>
FailX(cond, p, why, exp) == IF cond THEN << [p |-> p, why |-> why, exp |-> exp] >> ELSE <<>>

TInit == l = 1
TStep(V(_)) ==
  /\ l <= Len(Tr)
  /\ l' = l + 1
  /\ LET fails == V(Tr[l]) IN
       fails = <<>> \/ RejOut([line |-> l, fails |-> fails, ev |-> Tr[l]])
  /\ (l < Len(Tr) \/ RejOut([done |-> Len(Tr)]))
=============================================================================
