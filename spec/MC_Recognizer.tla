--------------------------- MODULE MC_Recognizer ---------------------------
(* Complete exploration of the recognizer over one representative code     *)
(* point per class of the computed partition.  No length bound: the state  *)
(* space (sets of grammar positions) is finite and explored to a fixpoint. *)
EXTENDS UriRecognizer

Sigma == Reps

MCInit == RInit
MCNext == \E c \in Sigma : Feed(c)
MCView == N

\* two independent formulations of the grammar agree on every reachable state
Agree == Accepting(N) = Accepts(pre)

\* "viable" means completable: some completion from a fixed finite set is accepted
\* by the matcher.  Hence "no valid completion exists" is exactly N = {}.
TailsOf(t) == { From(t, i) : i \in 1..(Len(t)+1) }
Templates == { <<48,48>>, <<48,48,64>>,                                        \* 00@
               <<48,46,48,46,48,46,48,93>>,                          \* 0.0.0.0]
               <<48,58,48,58,48,58,48,58,48,58,48,58,48,58,48,93>>,  \* 0:0:0:0:0:0:0:0]
               <<48,58,58,93>>,                                      \* 0::]
               <<48,46,97,93>> }                                     \* 0.a]
Completions == UNION { TailsOf(t) : t \in Templates }
Completable == N # {} => \E w \in Completions : Accepts(pre \o w)

\* the literal region is entered only by "[" and left only by "]"
InLit(p) == OpenBracket(p) # 0
LiteralRegion == [][ (InLit(pre') /\ ~InLit(pre) => Last(pre') = cLB)
                  /\ (InLit(pre) /\ ~InLit(pre') /\ N' # {} => Last(pre') = cRB) ]_<<N, pre>>

\* sanity of the class partition: 0..300 is covered, every class has its representative
ASSUME \A c \in CodePoints : RepOf(c) \in Reps /\ Sig(RepOf(c)) = Sig(c)
=============================================================================
