------------------------------ MODULE UriQuery ------------------------------
(* Query lists (C17): composition, the worst-case size figure, the bounded     *)
(* writer protocol, dissection, and the INT_MAX arithmetic on a scalable       *)
(* constant.  An item is [k |-> text, v |-> option of text].                   *)
EXTENDS UriEscape, UriWriter

Item(k, v) == [k |-> k, v |-> v]
ItemText(it, sp, nb) == Escape(it.k, sp, nb) \o (IF IsSome(it.v) THEN <<cEQ>> \o Escape(it.v[1], sp, nb) ELSE <<>>)
RECURSIVE ComposeFrom(_,_,_,_)
ComposeFrom(l, i, sp, nb) == IF i > Len(l) THEN <<>>
   ELSE (IF i > 1 THEN <<cAMP>> ELSE <<>>) \o ItemText(l[i], sp, nb) \o ComposeFrom(l, i+1, sp, nb)
Compose(l, sp, nb) == ComposeFrom(l, 1, sp, nb)

Worst(nb) == IF nb THEN 6 ELSE 3
RECURSIVE RequiredFrom(_,_,_)
RequiredFrom(l, i, nb) == IF i > Len(l) THEN 0
   ELSE (IF i > 1 THEN 1 ELSE 0) + Worst(nb) * Len(l[i].k) + (IF IsSome(l[i].v) THEN 1 + Worst(nb) * Len(l[i].v[1]) ELSE 0) + RequiredFrom(l, i+1, nb)
Required(l, nb) == RequiredFrom(l, 1, nb)

\* the chars-required query, with sizes that do not fit IntMax refused rather than wrapped
RequiredOK(l, nb, intMax, rc, req) ==
  IF Required(l, nb) > intMax THEN rc # OK                   \* refusal (which error code is not pinned)
  ELSE rc = OK => req = Required(l, nb)                       \* a per-item refusal for very long strings is allowed; a figure, if given, is exact

\* composing into cap cells: a relation - between the real length and the worst case either outcome is allowed
ComposeOK(l, sp, nb, cap, rc, wantw, written, cells) ==
  LET text == Compose(l, sp, nb)  n == Len(text) IN
  /\ Untouched(cells, IF cap < 0 THEN 0 ELSE cap)
  /\ (rc = OK \/ rc = TOO_LARGE)
  /\ (cap >= Required(l, nb) + 1 => rc = OK)
  /\ (cap < n + 1 => rc = TOO_LARGE)
  /\ (rc = OK => /\ (wantw => written = n + 1) /\ (\A i \in 1..n : cells[i] = text[i]) /\ cells[n + 1] = 0)

\* ---------------------------------------------------------------- dissection
DissectItem(t, ps, conv) ==
  LET e == Idx(t, cEQ) IN
  IF e = 0 THEN Item(Unescape(t, ps, conv), None)
  ELSE Item(Unescape(Sub(t, 1, e-1), ps, conv), Some(Unescape(From(t, e+1), ps, conv)))
Vanishes(it) == it.k = <<>> /\ it.v = None
RECURSIVE DissectPieces(_,_,_,_)
DissectPieces(p, i, ps, conv) == IF i > Len(p) THEN <<>>
   ELSE LET it == DissectItem(p[i], ps, conv) IN (IF Vanishes(it) THEN <<>> ELSE <<it>>) \o DissectPieces(p, i+1, ps, conv)
Dissect(t, ps, conv) == DissectPieces(SplitOn(t, cAMP), 1, ps, conv)

\* what a composed list reads back as
RECURSIVE Survivors(_,_,_)
Survivors(l, i, nb) == IF i > Len(l) THEN <<>>
   ELSE (IF Vanishes(l[i]) THEN <<>> ELSE << Item(IF nb THEN NormBreaks(l[i].k, 1) ELSE l[i].k,
                                                    IF IsSome(l[i].v) THEN Some(IF nb THEN NormBreaks(l[i].v[1], 1) ELSE l[i].v[1]) ELSE None) >>)
        \o Survivors(l, i+1, nb)
QueryChars(t) == \A i \in 1..Len(t) : t[i] \in QUERYC \/ t[i] = cPCT
=============================================================================
