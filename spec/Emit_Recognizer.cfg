INIT EInit
NEXT ENext
VIEW MCView
CHECK_DEADLOCK FALSE
