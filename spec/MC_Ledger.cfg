INIT Init
NEXT Next
CONSTANTS MaxIds = 3  MaxLen = 6
INVARIANT Characterisation
CHECK_DEADLOCK FALSE
