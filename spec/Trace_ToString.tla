--------------------------- MODULE Trace_ToString ---------------------------
(* C05: uriToString / uriToStringCharsRequired against the bounded-writer    *)
(* contract, for the logged (projected) value of the real URI object.        *)
EXTENDS TraceCore, UriValue, UriWriter

VToString(x) ==
  LET text == Recompose(ValOf(x.val)) IN
     FailIf(x.rcreq # 0 \/ x.req # Len(text), "C05", "chars-required is not the length of the recomposed text")
  \o FailIf(x.fault # 0, "C05", "write beyond the stated capacity (guard page hit)")
  \o FailIf(~WriteOK(text, x.cap, x.rc, x.wantw, x.written, x.cells), "C05", "outcome of writing with this capacity violates the contract")
  \o FailIf(~x.same, "C05", "guard-page layout and canary layout disagree")

V(x) == IF x.e = "ToString" THEN VToString(x) ELSE Fail("C05", "unknown event")
TNext == TStep(V)
=============================================================================
