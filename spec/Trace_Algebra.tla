---------------------------- MODULE Trace_Algebra ----------------------------
(* Validates recorded executions of resolution, normalization, the mask       *)
(* query, equality and the produced objects' stability (C06..C09, C11) against *)
(* the value algebra.  Every event carries the projected value of the real    *)
(* input objects, so a parser defect does not make these checks fire.         *)
EXTENDS TraceCore, UriResolve, UriNormalize, UriRelativize, KnownFindings

\* same components (host kind and value included) and the same path TEXT; the path structure is C11's business
SameParts(a, b) == SameMeaning(a, b) /\ a.hk = b.hk /\ a.ht = b.ht /\ a.hb = b.hb

\* ---------------------------------------------------------------- AddBase (C06, C07)
VAddBase(x) ==
  LET R == ValOf(x.r)  B == ValOf(x.b)  opt == (x.opt = 1)
      exp == Resolve(R, B, opt)
  IN IF x.rc # exp.rc THEN Fail("C06", "return code differs from the specification")
     ELSE IF x.rc # 0 THEN <<>>
     ELSE LET T == ValOf(x.t)  E == exp.val[1] IN
          FailX(~SameParts(T, E), "C06", "target differs from RFC 3986 5.2.2, component for component", [segs |-> E.segs, abs |-> E.abs, text |-> Recompose(E)])
       \o FailIf(SameParts(T, E) /\ x.text # Some(Recompose(E)), "C06", "recomposed target differs")
       \o FailX(SameParts(T, E) /\ T # E, "C11", "same text as the parsed form but a different structure (would compare unequal)", [segs |-> E.segs, abs |-> E.abs, text |-> Recompose(E)])
       \o FailIf(~WfOf(x.t) \/ ~Stable(T), "C07", "target does not read back as held / is not well formed")
       \o FailIf(~x.ro, "C12", "a read-only argument was modified")

\* ---------------------------------------------------------------- Normalize (C08, C07, C09 kind clause)
VNormalize(x) ==
  LET v == ValOf(x.val)  m == x.mask % 64 IN
  IF x.rc # 0 THEN Fail("C08", "normalization failed without an allocation failure")
  ELSE LET o == ValOf(x.out)
           Ideal == Normalize(v, m)
           DotSlash == [Ideal EXCEPT !.segs = <<DOT, EMPTY>>]          \* "./" identifies what "." identifies
           E == IF SameParts(o, NormalizeX(v, m, TRUE)) THEN NormalizeX(v, m, TRUE)                            \* C08 alone allows either form of a fully cancelled relative path
                ELSE IF HasBit(m, M_PATH) /\ CancelsCompletely(v) /\ o = DotSlash THEN DotSlash ELSE Ideal IN
       FailX(~SameParts(o, E), "C08", "result differs from the syntax-based normal form for this mask", [segs |-> E.segs, abs |-> E.abs, text |-> Recompose(E)])
    \o FailX(SameParts(o, E) /\ o # E, "C11", "same text as the parsed form but a different structure (would compare unequal)", [segs |-> E.segs, abs |-> E.abs, text |-> Recompose(E)])
    \o FailIf(x.mask # 0 /\ x.out.own # 1, "C12", "not owner after normalization with a non-zero mask")
    \o FailIf(x.mask = 0 /\ x.out.own # x.val.own, "C08", "zero mask changed ownership")
    \o FailIf(~WfOf(x.out) \/ ~Stable(o), "C07", "normalized URI does not read back as held / is not well formed")
    \o FailIf(HasScheme(o) # HasScheme(v) \/ HasHost(o) # HasHost(v), "C09", "normalization added or removed a scheme or an authority")
    \o (LET t == Recompose(o) IN
        FailIf(Accepts(t) /\ (HasScheme(Components(t)) # HasScheme(v) \/ HasHost(Components(t)) # HasHost(v)), "C09",
               "the normalized URI, written out and read again, has gained or lost a scheme or an authority"))
    \o FailIf(IsRelPathRef(v) /\ v.segs # <<>> /\ ~(IsRelPathRef(o) /\ PathOf(o) # <<>> /\ PathOf(o)[1] # cSL), "C09", "relative path made empty or absolute")
    \o FailIf(~HasScheme(v) /\ ~HasHost(v) /\ v.abs /\ ~o.abs, "C09", "absolute path made relative")

VMaskReq(x) ==
  LET v == ValOf(x.val) IN
     FailIf(x.rc # 0, "C08", "mask query failed")
  \o FailIf(x.rc = 0 /\ ~MaskOK(v, x.mask), "C08", "reported mask is not sufficient (or zero for a non-normal URI)")
  \o FailIf(~x.ro, "C12", "a read-only argument was modified")

\* ---------------------------------------------------------------- the C09 equation on two recorded pipelines
VC09(x) ==
  LET R == ValOf(x.r)  B == ValOf(x.b)
      E == Normalize(ResolveT(R, B, FALSE), M_ALL) IN
     FailIf(x.t1 # x.t2, "C09", "resolve(normalize(R)) and resolve(R) differ after normalization")
  \o FailIf(x.t2 # Some(Recompose(E)), "C09", "normalized target differs from the specification")

\* ---------------------------------------------------------------- Equals (C11)
VEquals(x) ==
  LET a == ValOf(x.a)  b == ValOf(x.b) IN
     FailIf((x.res = 1) # Equal(a, b), "C11", "equality is not component-wise identity")
  \o FailIf(x.res # x.rev, "C11", "not symmetric")
  \o FailIf(x.lib /\ ((x.res = 1) # (x.ta = x.tb)), "C11", "equal objects with different texts, or the reverse, among library-produced URIs")
  \o FailIf(~x.ro, "C12", "a read-only argument was modified")

\* ---------------------------------------------------------------- RemoveBase (C10, C07)
VRemoveBase(x) ==
  LET S == ValOf(x.s)  B == ValOf(x.b)  md == (x.mode = 1) IN
  IF x.rc # 0 THEN FailIf(~RelativizeOK(S, B, md, x.rc, S), "C10", "wrong return code for these operands")
  ELSE LET Rf == ValOf(x.ref) IN
       FailIf(~HasScheme(S) \/ ~HasScheme(B), "C10", "a non-absolute source or base was accepted")
    \o (IF HasScheme(S) /\ HasScheme(B) THEN
          FailX(~ResolvesBack(Rf, B, S), "C10", "the reference does not resolve against the base back to the source", [text |-> Recompose(RelativizeIdeal(S, B, md)), back |-> Recompose(ResolveT(Rf, B, FALSE))])
       \o FailIf(S.sc # B.sc /\ ~Equal(Rf, S), "C10", "schemes differ but the result is not the source unchanged")
       \o FailIf(S.sc = B.sc /\ HasScheme(Rf) /\ (IF md /\ SameAuth(S, B) THEN CanUseAbsPath(S, B) ELSE CanOmitScheme(S, B)), "C10", "scheme kept although a reference without it resolves to the source")
       \o FailIf(S.sc = B.sc /\ HasHost(S) /\ SameAuth(S, B) /\ HasHost(Rf), "C10", "shared authority kept")
       \o FailIf(md /\ ~HasScheme(Rf) /\ ~HasHost(Rf) /\ CanUseAbsPath(S, B) /\ ~Rf.abs, "C10", "domain-root mode but the path is not absolute")
       \o FailIf(ResolvesBack(Rf, B, S) /\ x.backrc = 0 /\ ~Approx(DotNorm(ValOf(x.back)), DotNorm(S)), "C06", "the library's own resolution of the reference differs from the specification's")
        ELSE <<>>)
    \o FailIf(~WfOf(x.ref) \/ ~Stable(Rf), "C07", "created reference does not read back as held / is not well formed")
    \o FailIf(HasScheme(S) /\ HasScheme(B) /\ ~Stable(Rf), "C10", "the reference, written out and read again, is a different reference: it does not resolve back to the source")
    \o FailIf(x.text # Some(Recompose(Rf)), "C04", "recomposed reference differs from its components")
    \o FailIf(x.leak # 0, "C13", "blocks of the supplied manager not returned by the free function")
    \o FailIf(~x.ro, "C12", "a read-only argument was modified")

VIdeal(x) == CASE x.e = "AddBase" -> VAddBase(x)
               [] x.e = "Normalize" -> VNormalize(x)
               [] x.e = "MaskReq" -> VMaskReq(x)
               [] x.e = "C09" -> VC09(x)
               [] x.e = "Equals" -> VEquals(x)
               [] x.e = "RemoveBase" -> VRemoveBase(x)
               [] OTHER -> Fail("C06", "unknown event")

\* an event the ideal specification rejects is accepted through an ENABLED named deviation only
V(x) == LET f == VIdeal(x) IN
        IF f = <<>> THEN <<>>
        ELSE LET d == DeviationOf(x) IN
             IF d = "" THEN f ELSE [i \in 1..Len(f) |-> [p |-> f[i].p, why |-> f[i].why, dev |-> d]]
TNext == TStep(V)
=============================================================================
