------------------------------ MODULE MC_Escape ------------------------------
(* C16 on the specification: (1) the escape transducer, per transition and by  *)
(* induction on length; (2) the round-trip law on all strings up to a bound     *)
(* over class representatives; (3) the in-place unescape machine with explicit  *)
(* read/write cursors over a cell array: w <= r, nothing beyond the old         *)
(* terminator is written, the result is the function view's.                    *)
EXTENDS UriEscape, TLC
CONSTANT MaxLen

Reps == <<97, 32, 13, 10, 37, 43, 48, 65, 102, 103, 1, 127, 255, 52>>     \* a SP CR LF % + 0 A f g 0x01 0x7f 0xff 4

VARIABLES s, phase, cells, r, w, cr, ps, conv
vars == <<s, phase, cells, r, w, cr, ps, conv>>

Init == s = <<>> /\ phase = "grow" /\ cells = <<>> /\ r = 1 /\ w = 1 /\ cr = FALSE /\ ps = FALSE /\ conv = 0
Grow == /\ phase = "grow" /\ Len(s) < MaxLen
        /\ \E i \in 1..Len(Reps) : s' = Append(s, Reps[i])
        /\ UNCHANGED <<phase, cells, r, w, cr, ps, conv>>
\* start the in-place machine on s + NUL
StartUnescape == /\ phase = "grow"
                 /\ ps' \in BOOLEAN /\ conv' \in 0..3
                 /\ cells' = Append(s, 0) /\ r' = 1 /\ w' = 1 /\ cr' = FALSE /\ phase' = "run" /\ UNCHANGED s
Hex(i) == cells[i] \in HEXDIG
Put(cs, i, seq) == [k \in 1..Len(cs) |-> IF k >= i /\ k < i + Len(seq) THEN seq[k - i + 1] ELSE cs[k]]
StepUnescape ==
  /\ phase = "run"
  /\ IF cells[r] = 0 THEN /\ cells' = [cells EXCEPT ![w] = 0] /\ phase' = "done" /\ UNCHANGED <<r, w, cr>>
     ELSE IF cells[r] = cPCT /\ Hex(r+1) /\ Hex(r+2) THEN
        LET code == HexVal(cells[r+1]) * 16 + HexVal(cells[r+2])
            out == IF code = 10 THEN (IF conv = 3 THEN <<cLF>> ELSE IF cr THEN <<>> ELSE BreakOut(conv))
                   ELSE IF code = 13 THEN (IF conv = 3 THEN <<cCR>> ELSE BreakOut(conv)) ELSE <<code>>
        IN cells' = Put(cells, w, out) /\ w' = w + Len(out) /\ r' = r + 3 /\ cr' = (code = 13) /\ UNCHANGED phase
     ELSE IF cells[r] = cPCT /\ Hex(r+1) THEN
        cells' = Put(cells, w, <<cells[r], cells[r+1]>>) /\ w' = w + 2 /\ r' = r + 2 /\ cr' = FALSE /\ UNCHANGED phase
     ELSE cells' = Put(cells, w, <<IF cells[r] = cPLUS /\ ps THEN cSP ELSE cells[r]>>) /\ w' = w + 1 /\ r' = r + 1 /\ cr' = FALSE /\ UNCHANGED phase
  /\ UNCHANGED <<s, ps, conv>>
Next == Grow \/ StartUnescape \/ StepUnescape

\* ---- (1) escape: alphabet, growth bound, returned length
InvEscape == phase = "grow" =>
  \A sp \in BOOLEAN, nb \in BOOLEAN :
    LET e == Escape(s, sp, nb) IN
    /\ EscapeAlphabetOK(e, sp)
    /\ Len(e) <= (IF nb THEN 6 ELSE 3) * Len(s)
\* per transition: at most 3 (6) characters, which gives the bound for every length by induction
ASSUME \A c \in 1..255, crb \in BOOLEAN, sp \in BOOLEAN :
         /\ Len(EscapeStep(crb, c, sp, FALSE).out) <= 3 /\ Len(EscapeStep(crb, c, sp, TRUE).out) <= 6
         /\ EscapeAlphabetOK(EscapeStep(crb, c, sp, TRUE).out, sp) /\ EscapeAlphabetOK(EscapeStep(crb, c, sp, FALSE).out, sp)
\* ---- (2) round trip with the matching plus/space option
InvRoundTrip == phase = "grow" =>
  \A sp \in BOOLEAN, nb \in BOOLEAN :
    Unescape(Escape(s, sp, nb), sp, 3) = IF nb THEN NormBreaks(s, 1) ELSE s
\* ---- (3) the in-place machine
InvCursors == phase \in {"run", "done"} => w <= r /\ r <= Len(cells)
InvNoWriteBeyond == phase \in {"run", "done"} => Len(cells) = Len(s) + 1           \* the array never grows: nothing past the old terminator
InvResult == phase = "done" => SubSeq(cells, 1, w - 1) = Unescape(s, ps, conv) /\ cells[w] = 0 /\ w - 1 <= Len(s)
=============================================================================
