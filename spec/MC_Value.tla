------------------------------ MODULE MC_Value ------------------------------
(* Text <-> value: the Appendix B split (Components) against the Appendix A  *)
(* grammar, and Recompose as its inverse.  The state is a text that grows    *)
(* one code point at a time along viable prefixes only (pruned by the        *)
(* position automaton), over three focused alphabets.                        *)
EXTENDS UriLanguage, UriValue, IOUtils

CONSTANT MaxLen

\* alphabets: general shape / authority / inside an IP literal
AlphaOf    == [gen  |-> <<97,49,58,47,63,35,46,37,52,64,43>>,          \* a 1 : / ? # . % 4 @ +
               auth |-> <<47,97,49,58,64,91,93,46,37,52,118>>,         \* / a 1 : @ [ ] . % 4 v
               ip   |-> <<93,58,46,48,49,50,53,97,70>>]                \* ] : . 0 1 2 5 a F
StartTexts == [gen |-> <<>>, auth |-> <<47,47>>, ip |-> <<47,47,91>>]
Extra      == [gen |-> 0, auth |-> 0, ip |-> 1]

VARIABLES which, s
vars == <<which, s>>

Init == /\ which \in {"gen", "auth", "ip"}
        /\ s = StartTexts[which]
Next == /\ Len(s) < Len(StartTexts[which]) + MaxLen + Extra[which]
        /\ \E i \in 1..Len(AlphaOf[which]) : s' = Append(s, AlphaOf[which][i]) /\ which' = which

\* ---- invariants, all about accepted texts -------------------------------------------------
Acc == Accepts(s)

\* the raw host text with its brackets, as it stands in the input
RawHost(x, sp) == IF sp.br THEN <<cLB>> \o x.ht \o <<cRB>> ELSE x.ht
RecomposeRaw(x, sp) ==
  (IF IsSome(x.sc) THEN x.sc[1] \o <<cCOLON>> ELSE <<>>)
  \o (IF HasHost(x) THEN <<cSL, cSL>> \o (IF IsSome(x.ui) THEN x.ui[1] \o <<cAT>> ELSE <<>>)
                          \o RawHost(x, sp) \o (IF IsSome(x.po) THEN <<cCOLON>> \o x.po[1] ELSE <<>>) ELSE <<>>)
  \o PathOf(x)
  \o (IF IsSome(x.q) THEN <<cQM>> \o x.q[1] ELSE <<>>) \o (IF IsSome(x.f) THEN <<cHASH>> \o x.f[1] ELSE <<>>)

\* the automaton's verdict is the matcher's verdict (kept here so this model does not rest on MC_Recognizer's alphabet)
AgreeHere == Acc = AcceptsA(s)

\* the split loses nothing: putting the pieces back with the RFC delimiters gives the input, character for character
Tiling == Acc => RecomposeRaw(Components(s), CompSpans(s)) = s

\* each piece belongs to the grammar rule of its component: the Appendix B split IS the grammar's assignment
OptIn(o, rule) == o = None \/ Matches(rule, o[1])
PiecesMatch == Acc => LET v == Components(s) IN
  /\ OptIn(v.sc, "scheme") /\ OptIn(v.ui, "userinfo") /\ OptIn(v.po, "port") /\ OptIn(v.q, "query") /\ OptIn(v.f, "fragment")
  /\ \A i \in 1..Len(v.segs) : Matches("segment", v.segs[i])
  /\ (v.hk = "ip4" => Matches("IPv4address", v.ht))
  /\ (v.hk = "ip6" => Matches("IPv6address", v.ht) /\ ~Matches("IPvFuture", v.ht))
  /\ (v.hk = "fut" => Matches("IPvFuture", v.ht) /\ ~Matches("IPv6address", v.ht))
  /\ (v.hk = "reg" => Matches("regName", v.ht) /\ ~Matches("IPv4address", v.ht))
  /\ (v.hk = "none" => v.ui = None /\ v.po = None)
  /\ (~HasHost(v) /\ ~HasScheme(v) /\ ~v.abs /\ v.segs # <<>> => ~Has(v.segs[1], cCOLON))
  /\ (~HasHost(v) /\ v.segs # <<>> /\ v.abs => Len(v.segs) = 1 \/ v.segs[1] # <<>>)   \* no "//" without authority

\* address bytes: right length, in range, and the canonical text denotes the same bytes
Bytes == Acc => LET v == Components(s) IN
  /\ (v.hk = "ip4" => Len(v.hb) = 4  /\ (\A i \in 1..4  : v.hb[i] \in 0..255) /\ Ip4Text(v.hb) = v.ht)
  /\ (v.hk = "ip6" => Len(v.hb) = 16 /\ (\A i \in 1..16 : v.hb[i] \in 0..255) /\ Ip6Bytes(Ip6Text(v.hb)) = v.hb)

\* recomposition (C04): the canonical text is accepted and reads back as the same value; without IPv6 it is the input
RoundTrip == Acc =>
  LET v == Components(s)
      t == Recompose(v)
      w == Components(t) IN
  /\ Accepts(t) /\ Equal(w, v) /\ w = [v EXCEPT !.ht = w.ht]
  /\ (v.hk # "ip6" => t = s)
  /\ WellFormedV(v)
=============================================================================
