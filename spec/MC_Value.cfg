INIT Init
NEXT Next
INVARIANT Tiling
INVARIANT PiecesMatch
INVARIANT Bytes
INVARIANT RoundTrip
CHECK_DEADLOCK FALSE
CONSTANT MaxLen = 3
