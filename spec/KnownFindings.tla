---------------------------- MODULE KnownFindings ----------------------------
(* Named deviation actions: for every confirmed defect of the current tree    *)
(* that is recorded rather than repaired, the precise trigger and the exact   *)
(* defective observable.  DeviationOf(x) names the deviation that explains a  *)
(* rejected event (or "").  Which names are honoured is decided by the        *)
(* committed known_findings.json, never at run time.                          *)
EXTENDS UriResolve, UriNormalize

\* ---------------------------------------------------------------------------------------------------
\* Dev_NormRelPathCancelsToEmpty  (breaks C09)
\* Trigger : normalization with the PATH bit of a relative-path reference whose dot segments cancel
\*           completely ("abc/..", "./", ".", "a/./..").
\* Defect  : the result has the EMPTY path (a same-document reference) instead of "." - pinned by the
\*           repository's own tests (test.cpp: "abc/.." -> "", "abc/../" -> "").
\* The deviation predicts the exact defective object: everything as the ideal, path empty.
DevNormEmpty_Normalize(x) ==
  LET v == ValOf(x.val)  m == x.mask % 64 IN
  /\ x.rc = 0 /\ HasBit(m, M_PATH) /\ CancelsCompletely(v)
  /\ ValOf(x.out) = NormalizeX(v, m, TRUE)
DevNormEmpty_C09(x) ==
  LET R == ValOf(x.r)  B == ValOf(x.b) IN
  /\ CancelsCompletely(R)
  /\ x.t1 = Some(Recompose(NormalizeX(ResolveT(NormalizeX(R, M_ALL, TRUE), B, FALSE), M_ALL, TRUE)))
  /\ x.t2 = Some(Recompose(Normalize(ResolveT(R, B, FALSE), M_ALL)))

DeviationOf(x) ==
  IF x.e = "Normalize" /\ DevNormEmpty_Normalize(x) THEN "Dev_NormRelPathCancelsToEmpty"
  ELSE IF x.e = "C09" /\ DevNormEmpty_C09(x) THEN "Dev_NormRelPathCancelsToEmpty"
  ELSE ""
=============================================================================
