----------------------------- MODULE UriResolve -----------------------------
(* Reference resolution, RFC 3986 section 5.2.2, on values (C06).            *)
EXTENDS UriPath

RC_OK == 0   RC_ADDBASE_REL_BASE == 5

\* authority of v copied into w
WithAuth(w, v) == [w EXCEPT !.ui = v.ui, !.hk = v.hk, !.ht = v.ht, !.hb = v.hb, !.po = v.po]

\* opt = TRUE: URI_RESOLVE_IDENTICAL_SCHEME_COMPAT
ResolveT(R0, B, opt) ==
  LET R == IF opt /\ HasScheme(R0) /\ R0.sc = B.sc THEN [R0 EXCEPT !.sc = None] ELSE R0 IN
  LET T ==
    IF HasScheme(R) THEN [R EXCEPT !.segs = RemoveDots(R.segs, FALSE)]
    ELSE IF HasHost(R) THEN [R EXCEPT !.sc = B.sc, !.segs = RemoveDots(R.segs, FALSE)]
    ELSE IF R.segs = <<>> /\ ~R.abs THEN
        [B EXCEPT !.q = IF IsSome(R.q) THEN R.q ELSE B.q]
    ELSE IF R.abs THEN
        [B EXCEPT !.abs = TRUE, !.segs = RemoveDots(R.segs, FALSE), !.q = R.q]
    ELSE LET m == MergeV(B, R) IN
        [B EXCEPT !.abs = m.abs, !.segs = RemoveDots(m.segs, FALSE), !.q = R.q]
  IN Canon([T EXCEPT !.f = R.f])

Resolve(R, B, opt) ==
  IF ~HasScheme(B) THEN [rc |-> RC_ADDBASE_REL_BASE, val |-> <<>>]
  ELSE [rc |-> RC_OK, val |-> <<ResolveT(R, B, opt)>>]

\* ---- literal text-level transcription of 5.2.2 (strict), used as cross-check oracle only
TextOpt(o, pre, post) == IF IsSome(o) THEN pre \o o[1] \o post ELSE <<>>
AuthText(v) == (IF IsSome(v.ui) THEN v.ui[1] \o <<cAT>> ELSE <<>>) \o HostText(v) \o (IF IsSome(v.po) THEN <<cCOLON>> \o v.po[1] ELSE <<>>)
RfcResolveText(R, B) ==
  LET rp == PathOf(R)  bp == PathOf(B)
      T == IF HasScheme(R) THEN [sc |-> R.sc, hasA |-> HasHost(R), auth |-> AuthText(R), path |-> RfcRemoveDotSegments(rp), q |-> R.q]
           ELSE IF HasHost(R) THEN [sc |-> B.sc, hasA |-> TRUE, auth |-> AuthText(R), path |-> RfcRemoveDotSegments(rp), q |-> R.q]
           ELSE IF rp = <<>> THEN [sc |-> B.sc, hasA |-> HasHost(B), auth |-> AuthText(B), path |-> bp, q |-> IF IsSome(R.q) THEN R.q ELSE B.q]
           ELSE IF rp[1] = cSL THEN [sc |-> B.sc, hasA |-> HasHost(B), auth |-> AuthText(B), path |-> RfcRemoveDotSegments(rp), q |-> R.q]
           ELSE [sc |-> B.sc, hasA |-> HasHost(B), auth |-> AuthText(B), path |-> RfcRemoveDotSegments(RfcMerge(HasHost(B), bp, rp)), q |-> R.q]
  IN TextOpt(T.sc, <<>>, <<cCOLON>>) \o (IF T.hasA THEN <<cSL, cSL>> \o T.auth ELSE <<>>) \o T.path
     \o TextOpt(T.q, <<cQM>>, <<>>) \o TextOpt(R.f, <<cHASH>>, <<>>)
=============================================================================
