----------------------------- MODULE Trace_Memory -----------------------------
(* C15: validates recorded call sequences on a real manager produced by         *)
(* uriCompleteMemoryManager over an instrumented backend.  The trace spec        *)
(* carries the abstract allocator state (live user blocks, live backend blocks)  *)
(* through an episode; each event must be a step the allocator contract allows.  *)
(* The number of backend calls per user call is left free; what is pinned is the *)
(* user-visible contract and the backend discipline.                             *)
EXTENDS Naturals, Integers, Sequences, FiniteSets, TLC, Json, IOUtils, CSV

VARIABLES l, ulive, blive, poisoned
Tr == ndJsonDeserialize(IOEnv.TRACE)
RejOut(rec) == CSVWrite("%1$s", <<ToJson(rec)>>, IOEnv.REJ)
ENOMEM == 12

Init == l = 1 /\ ulive = {} /\ blive = {} /\ poisoned = FALSE

\* backend log entries <<kind, bid, size, ok>>; returns [live, bad, failed]
RECURSIVE BRun(_,_,_)
BRun(B, log, i) ==
  IF i > Len(log) THEN B
  ELSE LET e == log[i] IN
       IF e[1] = "m" THEN BRun(IF e[4] = 1 THEN [B EXCEPT !.live = @ \cup {e[2]}] ELSE [B EXCEPT !.failed = TRUE], log, i+1)
       ELSE IF e[2] \in B.live THEN BRun([B EXCEPT !.live = @ \ {e[2]}], log, i+1)
       ELSE BRun([B EXCEPT !.bad = TRUE], log, i+1)

\* the verdict for one call: a sequence of reasons (empty = allowed), and the next user-live set
Check(x, B) ==
  LET k == x.kind  p == x.p  r == x.ret
      fresh == r # 0 /\ r \notin ulive
      allocLike(hdrovf, mustZero) ==                                \* malloc semantics for a request of the given size class
           IF hdrovf THEN (IF r = 0 THEN <<>> ELSE <<"a request within a page of SIZE_MAX cannot succeed (no room for any bookkeeping header)">>)   \* asking the backend or not is the implementation's business
           ELSE IF B.failed THEN (IF r = 0 THEN <<>> ELSE <<"backend failed but a block was returned">>)
           ELSE IF r = 0 THEN <<"NULL returned although the backend did not fail">>
           ELSE (IF fresh THEN <<>> ELSE <<"returned block is not fresh (live blocks must be disjoint)">>)
                \o (IF x.fullOK THEN <<>> ELSE <<"block not usable over its full size">>)
                \o (IF mustZero /\ ~x.zeroOK THEN <<"calloc memory not zeroed">> ELSE <<>>)
      reallocLike(hdrovf) ==
           IF p = 0 THEN allocLike(hdrovf, FALSE)
           ELSE IF p \notin ulive THEN <<"harness error: realloc of a block that is not live">>
           ELSE IF x.n = 0 THEN (IF r = 0 THEN <<>> ELSE <<"realloc(p,0) must free and return NULL">>)
           ELSE IF r = 0 THEN (IF (B.failed \/ hdrovf) /\ x.oldIntact THEN <<>> ELSE <<"realloc failed without cause, or the old block was not left intact">>)
           ELSE (IF r = p \/ fresh THEN <<>> ELSE <<"returned block is neither the old one nor fresh">>)
                \o (IF x.prefixOK THEN <<>> ELSE <<"reallocation did not preserve the common prefix">>)
                \o (IF x.fullOK THEN <<>> ELSE <<"block not usable over its full size">>)
  IN CASE k = "m" -> allocLike(x.hdrovf, FALSE)
       [] k = "c" -> IF x.ovf THEN (IF r = 0 /\ x.en = ENOMEM /\ x.backend = <<>> THEN <<>> ELSE <<"overflowing element-count product must fail with ENOMEM">>)
                     ELSE allocLike(x.hdrovf, TRUE)
       [] k = "r" -> reallocLike(x.hdrovf)
       [] k = "a" -> IF x.ovf THEN (IF r = 0 /\ x.en = ENOMEM /\ x.backend = <<>> /\ (p = 0 \/ x.oldIntact) THEN <<>> ELSE <<"overflowing element-count product must fail with ENOMEM and leave the old block intact">>)
                     ELSE reallocLike(x.hdrovf)
       [] k = "f" -> IF p = 0 THEN (IF x.backend = <<>> THEN <<>> ELSE <<"free(NULL) touched the backend">>)
                     ELSE IF p \in ulive THEN <<>> ELSE <<"harness error: free of a block that is not live">>
       [] OTHER -> <<"unknown call">>
UNext(x) ==
  LET k == x.kind  p == x.p  r == x.ret IN
  CASE k \in {"m", "c"} -> IF r # 0 THEN ulive \cup {r} ELSE ulive
    [] k \in {"r", "a"} -> IF p = 0 THEN (IF r # 0 THEN ulive \cup {r} ELSE ulive)
                           ELSE IF ~(k = "a" /\ x.ovf) /\ x.n = 0 THEN ulive \ {p}
                           ELSE IF r # 0 THEN (ulive \ {p}) \cup {r} ELSE ulive
    [] k = "f" -> ulive \ {p}
    [] OTHER -> ulive

Next ==
  /\ l <= Len(Tr) /\ l' = l + 1
  /\ (l < Len(Tr) \/ RejOut([done |-> Len(Tr)]))
  /\ LET x == Tr[l] IN
     IF x.e = "EmuCall" THEN      \* uriEmulateCalloc / uriEmulateReallocarray called directly on a complete (recording) manager
          /\ UNCHANGED <<ulive, blive, poisoned>>
          /\ LET why == (IF x.ovf /\ ~(x.ret = 0 /\ x.en = ENOMEM /\ x.reqs = 0) THEN <<"uriEmulateCalloc: an overflowing product must be refused with ENOMEM before the manager is asked">> ELSE <<>>)
                      \o (IF x.ovf /\ ~(x.ret2 = 0 /\ x.en2 = ENOMEM) THEN <<"uriEmulateReallocarray: an overflowing product must be refused with ENOMEM">> ELSE <<>>)
                      \o (IF x.small /\ ~x.zeroprod /\ ~(x.ret = 1 /\ x.zeroOK) THEN <<"uriEmulateCalloc: no block, or a block that is not zeroed, for a small product">> ELSE <<>>)
                      \o (IF x.small /\ ~x.zeroprod /\ ~(x.ret2 = 1 /\ x.keptOK) THEN <<"uriEmulateReallocarray: content not preserved for the same product">> ELSE <<>>)
                      \o (IF x.leak # 0 \/ x.bad THEN <<"emulation helpers: blocks outstanding or a bad release">> ELSE <<>>)
             IN why = <<>> \/ RejOut([line |-> l, fails |-> [i \in 1..Len(why) |-> [p |-> "C15", why |-> why[i]]], ev |-> x])
     ELSE IF x.e = "Reset" THEN ulive' = {} /\ blive' = {} /\ poisoned' = FALSE
     ELSE IF poisoned THEN UNCHANGED <<ulive, blive, poisoned>>
     ELSE IF x.e = "MmEnd" THEN
          /\ UNCHANGED <<ulive, blive, poisoned>>
          /\ (ulive = {} /\ blive = {}) \/ RejOut([line |-> l, fails |-> << [p |-> "C15", why |-> "backend blocks outstanding after the caller freed everything"] >>, ev |-> x])
     ELSE LET B == BRun([live |-> blive, bad |-> FALSE, failed |-> FALSE], x.backend, 1)
              why0 == Check(x, B)
              un == UNext(x)
              why == why0 \o (IF B.bad THEN <<"a backend block was released twice or with a pointer the backend never returned">> ELSE <<>>)
                          \o (IF why0 = <<>> /\ Cardinality(B.live) # Cardinality(un) THEN <<"live backend blocks do not correspond one-to-one to live user blocks">> ELSE <<>>)
                          \o (IF x.canaryOK THEN <<>> ELSE <<"a write outside a block (canary damaged)">>)
          IN /\ ulive' = un /\ blive' = B.live /\ poisoned' = (why # <<>>)
             /\ why = <<>> \/ RejOut([line |-> l, fails |-> [i \in 1..Len(why) |-> [p |-> "C15", why |-> why[i]]], ev |-> x])
=============================================================================
