------------------------------ MODULE Trace_Fault ------------------------------
(* C14 (and the ledger half of C13): one event per run of one operation with the  *)
(* k-th allocation request failing.  pre = requests of the set-up (same manager),  *)
(* mem = requests during the call, cleanup = the caller's ordinary cleanup.        *)
EXTENDS TraceCore, UriLedger
RC_MALLOC == 3
HasFailure(log) == \E i \in 1..Len(log) : log[i][1] # "f" /\ log[i][4] = 0
VFaultRun(x) ==
  LET Lp == Ledger(x.pre)
      Lm == LedgerFrom(Lp, x.mem)
      Lc == LedgerFrom(Lm, x.cleanup) IN
     FailIf(x.fault # 0, "C14", "crash (memory fault) during the call or the cleanup")
  \o FailIf(x.fault = 0 /\ HasFailure(x.mem) /\ x.rc # RC_MALLOC, "C14", "an allocation request failed but the call did not return the out-of-memory code")
  \o FailIf(x.fault = 0 /\ ~HasFailure(x.mem) /\ x.rc = RC_MALLOC, "C14", "out-of-memory code although no request failed")
  \o FailIf(x.fault = 0 /\ (Lc.live # {} \/ x.leak # 0), "C14", "blocks left outstanding after the caller's ordinary cleanup")
  \o FailIf(x.fault = 0 /\ (Lc.bad \/ x.bad), "C14", "a block was released twice or a pointer was released that the manager never handed out")
  \o FailIf(~x.ro, "C14", "a read-only input was modified")
V(x) == IF x.e = "FaultRun" THEN VFaultRun(x) ELSE Fail("C14", "unknown event")
TNext == TStep(V)
=============================================================================
