------------------------------ MODULE MC_Query ------------------------------
(* C17 on the specification: round trip, sufficiency of the size figure,       *)
(* legal output alphabet, and the INT_MAX refusal on a scaled constant.        *)
EXTENDS UriQuery, TLC
CONSTANTS MaxItems, MaxLen, IntMax

Alpha == {97, 38, 61, 43, 32, 37, 13, 10, 255}          \* a & = + SP % CR LF 0xff
Texts == UNION { [1..n -> Alpha] : n \in 0..MaxLen }
VARIABLES l, sp, nb
Init == l = <<>> /\ sp \in BOOLEAN /\ nb \in BOOLEAN
Next == /\ Len(l) < MaxItems
        /\ \E k \in Texts, v \in {None} \cup { Some(t) : t \in Texts } : l' = Append(l, Item(k, v))
        /\ UNCHANGED <<sp, nb>>

InvRoundTrip == Dissect(Compose(l, sp, nb), sp, 3) = Survivors(l, 1, nb)
InvSufficient == Required(l, nb) >= Len(Compose(l, sp, nb))
InvAlphabet == QueryChars(Compose(l, sp, nb))
\* scaled INT_MAX: whenever the per-item products fit but the sum does not, a correct size query refuses
RefusalSpec(req, rc) == RequiredOK(l, nb, IntMax, rc, req)
InvRefusalNeeded == Required(l, nb) > IntMax => ~RefusalSpec(Required(l, nb) % (IntMax + 1), OK)   \* a wrapped figure with rc 0 is rejected
InvCount == Len(Dissect(Compose(l, sp, nb), sp, 3)) = Len(Survivors(l, 1, nb))
=============================================================================
