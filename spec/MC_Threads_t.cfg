INIT Init
NEXT Next
CONSTANT Threads = {1, 2}
CONSTANT Kinds <- AllKinds
CONSTANT CallsPerThread = 2
CONSTANT Devs = {}
INVARIANT NoRace
INVARIANT ResultsSequential
INVARIANT NoGlobalWrite
INVARIANT NoInputWrite
CHECK_DEADLOCK FALSE
