---------------------------- MODULE UriLanguage ----------------------------
(* String-level view of the recognizer (no variables): which texts are      *)
(* accepted, how long the longest viable prefix is, and where a syntax      *)
(* error may be reported (property C01).                                    *)
EXTENDS UriGrammar

\* length of the longest viable prefix of s
RECURSIVE ViableLen(_,_,_)
ViableLen(S, s, i) ==
  IF i > Len(s) THEN Len(s)
  ELSE LET S2 == Step(S, s[i]) IN IF S2 = {} THEN i-1 ELSE ViableLen(S2, s, i+1)
LongestViable(s) == ViableLen(N0, s, 1)

\* An open bracket in the viable prefix: position of "[" with no later "]" (0 if none).
\* "[" occurs in no viable prefix other than as the opening of an IP literal.
OpenBracket(p) == LET lb == LastIdx(p, cLB) IN
                  IF lb # 0 /\ IndexFrom(p, cRB, lb) = 0 THEN lb ELSE 0

\* 0-based offsets at which a syntax error of input s may be reported.
ErrPosSet(s) ==
  LET k  == LongestViable(s)
      ob == OpenBracket(Sub(s, 1, k))
  IN IF Accepts(s) THEN {}
     ELSE IF k = Len(s) /\ ob = 0 THEN {Len(s)}
     ELSE IF ob = 0 THEN {k}
     ELSE LET rb == IndexFrom(s, cRB, ob)            \* first "]" after that "["
              hi == IF rb = 0 THEN Len(s) ELSE rb - 1
          IN (ob-1)..hi
=============================================================================
