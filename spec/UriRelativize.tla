--------------------------- MODULE UriRelativize ---------------------------
(* Reference creation (C10): the inverse of reference resolution.            *)
(* The property pins a RELATION, not a function: any reference that resolves *)
(* back to the source and omits what can be omitted is correct.  This module *)
(* gives                                                                      *)
(*   RelativizeOK(S, B, mode, rc, Ref) : the relation the code is held to;    *)
(*   RelativizeIdeal(S, B, mode)       : one function inside the relation      *)
(*                                       (non-emptiness; checked by TLC);      *)
(*   CanOmitScheme / witness search    : closed form of "a reference without  *)
(*                                       scheme can resolve to S", checked by  *)
(*                                       TLC against a finite candidate search.*)
EXTENDS UriResolve

RC_REMOVEBASE_REL_BASE == 6   RC_REMOVEBASE_REL_SOURCE == 7

\* dot-segment normalization of an absolute URI (nothing else is touched)
DotNorm(v) == Canon([v EXCEPT !.segs = RemoveDots(v.segs, FALSE)])

\* "compared after dot-segment normalization and treating an empty path under an authority as '/'"
PathKey(v) == IF HasHost(v) /\ v.segs = <<>> THEN << FALSE, <<EMPTY>> >> ELSE << v.abs, v.segs >>
Approx(x, y) == /\ x.sc = y.sc /\ x.ui = y.ui /\ HostKey(x) = HostKey(y) /\ x.po = y.po
                /\ PathKey(x) = PathKey(y) /\ x.q = y.q /\ x.f = y.f
ResolvesBack(Ref, B, S) == Approx(DotNorm(ResolveT(Ref, B, FALSE)), DotNorm(S))

\* the entire authority: user info, host (by value for IP hosts) and port
SameAuth(S, B) == S.ui = B.ui /\ HostKey(S) = HostKey(B) /\ S.po = B.po

\* closed form: some reference WITHOUT scheme resolves against B to S (same scheme assumed)
CanOmitScheme(S, B) == HasHost(S) \/ (~HasHost(B) /\ (S.abs \/ ~B.abs))
\* ... and some reference with an ABSOLUTE path (no scheme, no authority) does
CanUseAbsPath(S, B) == SameAuth(S, B) /\ (HasHost(S) \/ S.abs)

RelativizeOK(S, B, mode, rc, Ref) ==
  IF ~HasScheme(B) \/ ~HasScheme(S)
  THEN rc = (IF ~HasScheme(B) THEN RC_REMOVEBASE_REL_BASE ELSE RC_REMOVEBASE_REL_SOURCE)
       \/ (~HasScheme(B) /\ ~HasScheme(S) /\ rc = RC_REMOVEBASE_REL_SOURCE)
  ELSE /\ rc = 0
       /\ ResolvesBack(Ref, B, S)                                                       \* (i)   inverse of resolution
       /\ (S.sc # B.sc => Equal(Ref, S))                                                \* (ii)  schemes differ: S unchanged
       /\ (S.sc = B.sc /\ (IF mode /\ SameAuth(S, B) THEN CanUseAbsPath(S, B) ELSE CanOmitScheme(S, B))
             => ~HasScheme(Ref))                                                        \* (iii) scheme omitted when possible
       /\ (S.sc = B.sc /\ HasHost(S) /\ SameAuth(S, B) => ~HasHost(Ref) /\ ~HasScheme(Ref))  \*  and the shared authority
       /\ (mode /\ ~HasScheme(Ref) /\ ~HasHost(Ref) /\ CanUseAbsPath(S, B) => Ref.abs)  \* (iv)  domain-root mode: absolute path
       /\ Stable(Ref)                                                                   \* (v)   reads back as held (C07)

\* ---------------------------------------------------------------------------------------------------
\* One function inside the relation (the documented 50-step algorithm with the repairs the relation needs)
RECURSIVE CommonLen(_,_,_)
\* number of leading segments that are equal and NOT the last one of either list
CommonLen(a, b, i) == IF i + 1 < Len(a) /\ i + 1 < Len(b) /\ a[i+1] = b[i+1] THEN CommonLen(a, b, i + 1) ELSE i
Ups(n) == [k \in 1..n |-> DOTDOT]

RelPathIdeal(S, B) ==
  LET a == S.segs  b == B.segs
      \* a base with dot segments is not walked: a '..' further on could cancel a segment matched earlier;
      \* climbing out of ALL its directories is harmless (popping stops at the root)
      i == IF \E k \in 1..Len(b) : b[k] \in {DOT, DOTDOT} THEN 0 ELSE CommonLen(a, b, 0)
      bothLastEqual == Len(a) = i + 1 /\ Len(b) = i + 1 /\ a[i+1] = b[i+1]
      identical == (a = <<>> /\ b = <<>>) \/ bothLastEqual
      queryOK == IsSome(S.q) \/ ~IsSome(B.q)          \* an empty-path reference inherits the base's query
  IN IF identical /\ queryOK THEN <<>>
     ELSE LET ups == IF Len(b) > i THEN Len(b) - i - 1 ELSE 0
              rest == SubSeq(a, i + 1, Len(a))
              p == IF ups = 0 /\ rest # <<>> /\ rest[1] = EMPTY THEN <<DOT>> \o rest ELSE Ups(ups) \o rest   \* "./" guard (steps 35-36)
          IN IF p = <<>> THEN <<DOT>> ELSE p

RelativizeIdeal(S, B, mode) ==
  LET noSc == [S EXCEPT !.sc = None]
      noAuth == [noSc EXCEPT !.ui = None, !.hk = "none", !.ht = <<>>, !.hb = <<>>, !.po = None]
  IN IF S.sc # B.sc THEN S
     ELSE IF ~SameAuth(S, B) THEN (IF HasHost(S) THEN noSc ELSE S)
     ELSE IF ~HasHost(S) /\ ~S.abs /\ (B.abs \/ mode) THEN S              \* rootless source: no absolute-path reference reaches it
     ELSE IF mode \/ (~HasHost(S) /\ S.abs /\ ~B.abs)
          THEN Canon([noAuth EXCEPT !.abs = TRUE])
     ELSE Canon([noAuth EXCEPT !.abs = FALSE, !.segs = RelPathIdeal(S, B)])

\* ---------------------------------------------------------------------------------------------------
\* finite witness search for "a scheme-less reference resolves to S": network-path form, absolute-path form,
\* k x ".." + every suffix of S's segments, with and without the "." guard
SegSuffixes(s) == { SubSeq(s, i, Len(s)) : i \in 1..(Len(s) + 1) }
Candidates(S, B) ==
  LET noSc == [S EXCEPT !.sc = None]
      noAuth == [noSc EXCEPT !.ui = None, !.hk = "none", !.ht = <<>>, !.hb = <<>>, !.po = None]
      rels == { Ups(k) \o suf : k \in 0..(Len(B.segs) + 1), suf \in SegSuffixes(S.segs) }
  IN {noSc} \cup { Canon([noAuth EXCEPT !.abs = TRUE]) }
     \cup { Canon([noAuth EXCEPT !.abs = FALSE, !.segs = p]) : p \in rels \cup { <<DOT>> \o q : q \in rels } }
SchemelessWitness(S, B) == \E c \in Candidates(S, B) : ~HasScheme(c) /\ Stable(c) /\ ResolvesBack(c, B, S)
AbsPathWitness(S, B) == \E c \in Candidates(S, B) : ~HasScheme(c) /\ ~HasHost(c) /\ c.abs /\ Stable(c) /\ ResolvesBack(c, B, S)
=============================================================================
