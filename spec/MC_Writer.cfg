INIT Init
NEXT Next
INVARIANT NeverBeyond
INVARIANT Contract
CONSTANTS MaxPieces = 3  MaxPieceLen = 2  MaxCap = 8
CHECK_DEADLOCK FALSE
