----------------------------- MODULE MC_Algebra -----------------------------
(* The value machine: a first action chooses the shape of a reference, a      *)
(* second completes it, a third chooses a base.  Properties C06..C09 (and the *)
(* C07/C11 structure theorem for produced values) are invariants of the       *)
(* states so reached.  Choices are spread over three actions so that TLC's    *)
(* workers share the universe (all successors of one state are computed by    *)
(* one worker).                                                               *)
EXTENDS UriUniverse, TLC

CONSTANTS MaxSegs,
          AltMode      \* FALSE: the ideal specification; TRUE: with deviation Dev_NormRelPathCancelsToEmpty enabled

SegAlpha == {EMPTY, DOT, DOTDOT, tA, tBC, tPct2e, <<46,46,46>>}
Schemes == OptSet({tS, tT, <<115,120>>})          \* s, t, sx (a scheme that extends the base's)
Hosts   == OptSet({<<>>, tH2})

VARIABLES stage, shape, r, b, opt
vars == <<stage, shape, r, b, opt>>
Nil == [sc |-> None, ui |-> None, hk |-> "none", ht |-> <<>>, hb |-> <<>>, po |-> None, abs |-> FALSE, segs |-> <<>>, q |-> None, f |-> None]

Init == stage = 0 /\ shape = <<>> /\ r = Nil /\ b = Nil /\ opt = FALSE
ChooseShape == /\ stage = 0
               /\ \E sc \in Schemes, h \in Hosts, ab \in BOOLEAN, q \in OptSet({<<>>, tQ}), f \in OptSet({tF}) :
                    shape' = <<sc, h, ab, q, f>>
               /\ stage' = 1 /\ UNCHANGED <<r, b, opt>>
ChooseSegs == /\ stage = 1
              /\ \E sg \in SegSeqs(SegAlpha, MaxSegs) :
                   LET v == Mk(shape[1], None, shape[2], None, shape[3], sg, shape[4], shape[5]) IN
                   InUniverse(v) /\ r' = v
              /\ stage' = 2 /\ UNCHANGED <<shape, b, opt>>
ChooseBase == /\ stage = 2
              /\ b' \in Bases /\ opt' \in BOOLEAN
              /\ stage' = 3 /\ UNCHANGED <<shape, r>>
Next == ChooseShape \/ ChooseSegs \/ ChooseBase

\* ------------------------------------------------------------------ C08 / C09 (normalization of r alone): stage 2
NR == NormalizeX(r, M_ALL, AltMode)
NoPctDot == \A i \in 1..Len(r.segs) : r.segs[i] # tPct2e
InvNormStructural == stage = 2 => Structural(NR)                                   \* C07: reads back as held (and equal: C11)
InvNormIdempotent == stage = 2 => Normalize(NR, M_ALL) = NR                        \* C08
InvNormKind == stage = 2 =>                                                        \* C09, second sentence
   /\ HasScheme(NR) = HasScheme(r) /\ HasHost(NR) = HasHost(r)
   /\ (IsRelPathRef(r) /\ r.segs # <<>> => IsRelPathRef(NR) /\ PathOf(NR) # <<>> /\ PathOf(NR)[1] # cSL)
   /\ (~HasScheme(r) /\ ~HasHost(r) /\ r.abs => NR.abs)
InvNormMaskLocal == stage = 2 =>                                                   \* C08: a mask touches only what it selects
   \A m \in {M_SCHEME, M_HOST, M_PATH, M_QUERY, M_FRAGMENT, M_USERINFO} :
      LET x == Normalize(r, m) IN
      /\ (m # M_SCHEME => x.sc = r.sc) /\ (m # M_HOST => x.ht = r.ht) /\ (m # M_QUERY => x.q = r.q) /\ (m # M_FRAGMENT => x.f = r.f)
      /\ (m # M_PATH => x.segs = r.segs /\ x.abs = r.abs)
      /\ Normalize(Normalize(r, m), M_ALL - m) = NR

\* ------------------------------------------------------------------ C06 / C07 / C09 (resolution): stage 3
Abs(v) == HasScheme(v)
T == ResolveT(r, b, opt)
InvResolveRc == stage = 3 => Resolve(r, b, opt).rc = IF Abs(b) THEN 0 ELSE 5
InvResolveStructural == stage = 3 /\ Abs(b) => Structural(T)                       \* C07 (+ C11 structure theorem)
\* agreement with the literal text-level RFC algorithm: always, except (1) the "//"-guard, (2) rootless base paths
RfcText == RfcResolveText(IF opt /\ r.sc = b.sc THEN [r EXCEPT !.sc = None] ELSE r, b)
RfcPathAmbiguous(v) == ~HasHost(v) /\ v.abs /\ v.segs # <<>> /\ v.segs[1] = DOT /\ Len(v.segs) >= 2 /\ v.segs[2] = EMPTY
RootlessBase == ~HasHost(b) /\ ~b.abs          \* rootless or empty base path without authority: the merged path is rootless
REff == IF opt /\ r.sc = b.sc THEN [r EXCEPT !.sc = None] ELSE r
\* the path handed to remove_dot_segments is rootless: a reference with scheme and rootless path, or a merge onto a rootless/empty base path
DotInputRootless == IF HasScheme(REff) THEN ~HasHost(REff) /\ ~REff.abs
                    ELSE ~HasHost(REff) /\ ~REff.abs /\ REff.segs # <<>> /\ RootlessBase
InvResolveRfcText == stage = 3 /\ Abs(b) /\ ~DotInputRootless =>
    IF Accepts(RfcText) /\ Components(RfcText).sc = T.sc /\ HasHost(Components(RfcText)) = HasHost(T)
    THEN Recompose(T) = RfcText
    ELSE RfcPathAmbiguous(T)            \* only the guarded case may differ from the RFC's literal text
InvResolveNeverAbsolutizes == stage = 3 /\ Abs(b) /\ RootlessBase /\ b.segs # <<>> /\ ~HasScheme(r) /\ ~HasHost(r) /\ ~r.abs /\ r.segs # <<>>
    /\ (\A i \in 1..Len(r.segs) : r.segs[i] # EMPTY) /\ (\A i \in 1..Len(b.segs) : b.segs[i] # EMPTY) => ~T.abs
\* C09, first sentence
InvC09 == stage = 3 /\ Abs(b) /\ NoPctDot /\ ~opt =>      \* (strict resolution: with the compat option "s:." means "." but its normal form "s:" means "")
    Normalize(ResolveT(NR, b, opt), M_ALL) = Normalize(T, M_ALL)
Pretty == [stage |-> stage, r |-> Recompose(r), b |-> Recompose(b), opt |-> opt,
           T |-> IF stage = 3 /\ Abs(b) THEN Recompose(T) ELSE <<>>, Tv |-> IF stage = 3 /\ Abs(b) THEN T ELSE Nil,
           rfc |-> IF stage = 3 /\ Abs(b) THEN RfcText ELSE <<>>, nr |-> IF stage >= 2 THEN Recompose(NR) ELSE <<>>]
=============================================================================
