---------------------------- MODULE UriUniverse ----------------------------
(* Component-wise universes of URI references and bases for the value-level  *)
(* models (C05..C11): texts assembled from small component alphabets and     *)
(* filtered by Accepts, so a universe is "all parsed URIs of these shapes".  *)
EXTENDS UriResolve, UriNormalize

OptSet(S) == {None} \cup { Some(x) : x \in S }
tA == <<97>>  tB == <<98>>  tBC == <<98,58,99>>  tH == <<104>>  tH2 == <<104,50>>  tS == <<115>>  tT == <<116>>
tQ == <<113>> tF == <<102>> tU == <<117>> t1 == <<49>>  tPct2e == <<37,50,101>>

SegSeqs(alpha, n) == UNION { [1..k -> alpha] : k \in 0..n }
Mk(sc, ui, host, po, ab, sg, q, f) ==
  [sc |-> sc, ui |-> ui, hk |-> IF host = None THEN "none" ELSE "reg", ht |-> IF host = None THEN <<>> ELSE host[1], hb |-> <<>>,
   po |-> po, abs |-> ab, segs |-> sg, q |-> q, f |-> f]

\* a value built from parts is in the universe iff its text is accepted and reads back as the same parts
InUniverse(v) == LET t == Recompose(v) IN Accepts(t) /\ Components(t) = v

BaseTexts == { <<115,58>> \o t : t \in {
   <<>>, <<47>>, <<47,120>>, <<47,120,47,121>>, <<47,120,47>>, <<47,120,47,47>>, <<120>>, <<120,47,121>>,           \* s:  s:/  s:/x  s:/x/y  s:/x/  s:/x//  s:x  s:x/y
   <<47,47>>, <<47,47,47,120>>,                                                                                   \* s://  s:///x
   <<47,47,103>>, <<47,47,103,47>>, <<47,47,103,47,120,47,121>>, <<47,47,103,47,120,47,47>>, <<47,47,103,63,122>>,  \* s://g  s://g/  s://g/x/y  s://g/x//  s://g?z
   <<47,47,117,64,103,58,49,47,120,63,122>> } }                                                                     \* s://u@g:1/x?z
Bases == { Components(t) : t \in BaseTexts } \cup { Components(<<47,47,103,47,120>>), Components(<<47,120>>) }       \* + two scheme-less "bases"
=============================================================================
