INIT Init
NEXT Next
CONSTANTS MaxIds = 4  MaxLen = 7
INVARIANT Characterisation
CHECK_DEADLOCK FALSE
