--------------------------- MODULE MC_Relativize ---------------------------
(* Reference creation on the specification (C10).  A first action picks the *)
(* shape of the source, a second the base and the mode; the invariants say   *)
(*  - the relation RelativizeOK is never empty: the function RelativizeIdeal *)
(*    is in it for every pair (so the code is never held to the impossible); *)
(*  - the closed forms CanOmitScheme / CanUseAbsPath agree with a finite     *)
(*    witness search over candidate references;                               *)
(*  - the produced reference omits what the property says it must.           *)
EXTENDS UriRelativize, TLC

CONSTANT Rich        \* FALSE: quick universe; TRUE: thorough universe

T(s) == s
Schemes == { <<115>>, <<116>> }                                                  \* s t
AuthTexts == { <<>>, <<47,47,104>>, <<47,47,117,64,104>>, <<47,47,104,58,49>>, <<47,47,103>> }      \* -, //h, //u@h, //h:1, //g
             \cup (IF Rich THEN { <<47,47,91,58,58,49,93>>, <<47,47,49,46,50,46,51,46,52>>, <<47,47>>, <<47,47,104,58>>, <<47,47,64,104>> } ELSE {})  \* //[::1] //1.2.3.4 // //h: //@h
PathsH == { <<>>, <<47>>, <<47,97>>, <<47,97,47,98>>, <<47,97,47>>, <<47,98>>, <<47,97,47,99>>, <<47,97,58,98>>, <<47,47,120>>, <<47,97,47,47,98>>, <<47,97,47,46,46,47,98>> }
          \cup (IF Rich THEN { <<47,97,47,98,47,99>>, <<47,46>>, <<47,97,47,46,46>>, <<47,46,46,47,97>>, <<47,97,47,98,47>>, <<47,47>>, <<47,97,47,47>> } ELSE {})
\* ""  /  /a  /a/b  /a/  /b  /a/c  /a:b  //x  /a//b  /a/../b   |  /a/b/c  /.  /a/..  /../a  /a/b/  //  /a//
PathsN == { <<>>, <<47>>, <<47,97>>, <<47,97,47,98>>, <<47,97,47>>, <<97>>, <<97,47,98>>, <<98>>, <<97,47>>, <<97,58,98,47,99>>, <<47,97,58,98>> }
          \cup (IF Rich THEN { <<46>>, <<46,46>>, <<46,46,47,97>>, <<97,47,46,46>>, <<47,46,47,47,120>>, <<97,47,47,98>>, <<97,47,98,47,99>> } ELSE {})
\* ""  /  /a  /a/b  /a/  a  a/b  b  a/  a:b/c  /a:b   |  .  ..  ../a  a/..  /.//x  a//b  a/b/c
Queries == { <<>>, <<63,113>> } \cup (IF Rich THEN { <<63>> } ELSE {})

Texts == { sc \o <<58>> \o au \o p \o q : sc \in Schemes, au \in AuthTexts, p \in PathsH \cup PathsN, q \in Queries }
Uris == { Components(t) : t \in { x \in Texts : Accepts(x) } }
Wanted(v) == IF HasHost(v) THEN PathOf(v) \in PathsH ELSE PathOf(v) \in PathsN

VARIABLES stage, S, B, mode
vars == <<stage, S, B, mode>>
Nil == [sc |-> None, ui |-> None, hk |-> "none", ht |-> <<>>, hb |-> <<>>, po |-> None, abs |-> FALSE, segs |-> <<>>, q |-> None, f |-> None]
Init == stage = 0 /\ S = Nil /\ B = Nil /\ mode = FALSE
ChooseS == stage = 0 /\ stage' = 1 /\ (\E v \in Uris : Wanted(v) /\ S' = v) /\ UNCHANGED <<B, mode>>
\* bases: scheme "s" only, and (thorough) the authorities that can be shared or differ in one part; the source ranges over everything
BaseAuthOK(v) == ~HasHost(v) \/ (v.hk = "reg" /\ v.ht = <<104>>)
ChooseB == stage = 1 /\ stage' = 2 /\ (\E v \in Uris : Wanted(v) /\ v.sc = Some(<<115>>) /\ BaseAuthOK(v) /\ B' = v) /\ mode' \in BOOLEAN /\ UNCHANGED S
Next == ChooseS \/ ChooseB

Ref == RelativizeIdeal(S, B, mode)
\* the relation is not empty: the ideal function is inside it
InvIdealInRelation == stage = 2 => RelativizeOK(S, B, mode, 0, Ref)
\* closed forms = witness search
\* (the query plays no part in them: the search is evaluated on query-less pairs only)
InvClosedForms == stage = 2 /\ S.sc = B.sc /\ S.q = None /\ B.q = None =>
    /\ CanOmitScheme(S, B) = SchemelessWitness(S, B)
    /\ (SameAuth(S, B) => CanUseAbsPath(S, B) = AbsPathWitness(S, B))
\* a non-absolute operand is rejected with its code (the relation pins the code)
InvRelCodes == stage = 2 =>
    /\ RelativizeOK([S EXCEPT !.sc = None], B, mode, RC_REMOVEBASE_REL_SOURCE, Nil) /\ ~RelativizeOK([S EXCEPT !.sc = None], B, mode, 0, S)
    /\ RelativizeOK(S, [B EXCEPT !.sc = None], mode, RC_REMOVEBASE_REL_BASE, Nil)
\* the resolution of the ideal reference is S itself when S has no dot segments (sanity of DotNorm)
Pretty == [stage |-> stage, S |-> Recompose(S), B |-> Recompose(B), mode |-> mode,
           ref |-> IF stage = 2 THEN Recompose(Ref) ELSE <<>>, refv |-> IF stage = 2 THEN Ref ELSE Nil,
           back |-> IF stage = 2 THEN Recompose(ResolveT(Ref, B, FALSE)) ELSE <<>>]
=============================================================================
