----------------------------- MODULE MC_Writer -----------------------------
(* Design-level model of an append-by-piece writer with a bail-out: the     *)
(* text is a sequence of pieces; a piece is appended only if it fits in     *)
(* front of the reserved NUL cell, otherwise the writer resets the first    *)
(* cell and reports TOO_LARGE.  Invariant: no cell at index >= cap is ever  *)
(* written, and the final outcome satisfies the WriteOK contract.           *)
EXTENDS UriWriter, TLC
CONSTANTS MaxPieces, MaxPieceLen, MaxCap

VARIABLES pieces, cap, cells, pos, st, k
vars == <<pieces, cap, cells, pos, st, k>>
PieceSet == UNION { [1..n -> {65}] : n \in 0..MaxPieceLen }
RECURSIVE Flat(_)
Flat(ps) == IF ps = <<>> THEN <<>> ELSE Head(ps) \o Flat(Tail(ps))

Init == /\ pieces \in UNION { [1..n -> PieceSet] : n \in 0..MaxPieces }
        /\ cap \in -1..MaxCap
        /\ cells = [i \in 1..(MaxCap + 8) |-> PreFill]
        /\ pos = 0 /\ st = "start" /\ k = 1
Start == /\ st = "start"
         /\ IF cap < 1 THEN st' = "toolarge" /\ UNCHANGED cells
            ELSE st' = "run" /\ cells' = [cells EXCEPT ![1] = 0]
         /\ UNCHANGED <<pieces, cap, pos, k>>
AppendPiece == /\ st = "run" /\ k <= Len(pieces)
          /\ (LET p == pieces[k] IN
             IF pos + Len(p) <= cap - 1
             THEN /\ cells' = [i \in 1..Len(cells) |-> IF i > pos /\ i <= pos + Len(p) THEN p[i - pos] ELSE cells[i]]
                  /\ pos' = pos + Len(p) /\ k' = k + 1 /\ st' = st
             ELSE /\ cells' = [cells EXCEPT ![1] = 0] /\ st' = "toolarge" /\ UNCHANGED <<pos, k>>)
          /\ UNCHANGED <<pieces, cap>>
Finish == /\ st = "run" /\ k > Len(pieces)
          /\ cells' = [cells EXCEPT ![pos + 1] = 0] /\ st' = "ok"
          /\ UNCHANGED <<pieces, cap, pos, k>>
Next == Start \/ AppendPiece \/ Finish

NeverBeyond == Untouched(cells, IF cap < 0 THEN 0 ELSE cap)
Contract == st \in {"ok", "toolarge"} =>
   WriteOK(Flat(pieces), cap, IF st = "ok" THEN OK ELSE TOO_LARGE, TRUE, IF st = "ok" THEN pos + 1 ELSE 0, cells)
=============================================================================
