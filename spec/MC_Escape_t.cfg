INIT Init
NEXT Next
CONSTANT MaxLen = 4
INVARIANT InvEscape
INVARIANT InvRoundTrip
INVARIANT InvCursors
INVARIANT InvNoWriteBeyond
INVARIANT InvResult
CHECK_DEADLOCK FALSE
