----------------------------- MODULE Trace_Suite -----------------------------
(* Validates the executions of the REPOSITORY'S OWN test suite, recorded by an  *)
(* LD_PRELOAD tracer (harness/shim/shim.cpp) at the return of every interposed  *)
(* public call: the suite's inputs get every assertion of the specification,    *)
(* not only the suite's own.  Resolution, reference creation, normalization,    *)
(* the mask query and equality use the clauses of Trace_Algebra; parsing is     *)
(* checked against the grammar and the component split.                          *)
EXTENDS Trace_Algebra, UriLanguage

VParseLite(x) ==
  LET acc == Accepts(x.in) IN
     FailIf((x.rc = 0) # acc, "C01", IF acc THEN "valid URI reference rejected" ELSE "invalid text accepted")
  \o FailIf(~acc /\ x.rc = 1 /\ x.epos \notin ErrPosSet(x.in), "C01", "error position not the first character after which no completion exists")
  \o (IF acc /\ x.rc = 0 THEN FailIf(ValOf(x.val) # Components(x.in), "C02", "components differ from the RFC 3986 split")
                             \o FailIf(~WfOf(x.val), "C02", "structure not well formed") ELSE <<>>)

VS(x) == IF x.e = "ParseLite" THEN VParseLite(x) ELSE V(x)
SNextSuite == TStep(VS)
=============================================================================
