----------------------------- MODULE UriThreads -----------------------------
(* C20: concurrent calls on distinct objects.  A public call is NOT atomic:   *)
(* it is a program of reads and writes of memory locations.  Locations are    *)
(*   <<"g", name>>       library globals (the default manager table, the      *)
(*                       placeholder constants),                               *)
(*   <<"in", obj, part>> caller objects shared read-only between threads (a   *)
(*                       base URI: its top-level structure and its segment    *)
(*                       nodes incl. the `reserved` link; a reference; a      *)
(*                       query list; input text),                             *)
(*   <<"p", t, name>>    objects private to thread t (outputs, copies, heap   *)
(*                       blocks the call allocates, buffers).                  *)
(* Threads never synchronise, so any two accesses by different threads are    *)
(* concurrent: a data race is two accesses to one location by two threads, at *)
(* least one of them a write.  A call's result depends on the values it read; *)
(* it equals the single-threaded result iff it read no value written by       *)
(* another thread.  The programs below are the FOOTPRINTS of the public calls  *)
(* (read from the code: which objects a call may read, which it may write);   *)
(* the conformance side of the check observes that the real calls stay inside *)
(* them (shared inputs and library globals are mapped read-only).  Deviation  *)
(* flags describe the defects one would fear; with any of them TLC finds the  *)
(* racing interleaving, which shows the invariants are not vacuous.           *)
EXTENDS Naturals, Sequences, FiniteSets

CONSTANTS Threads,          \* e.g. 1..3
          Kinds,            \* call kinds a thread may run
          CallsPerThread,
          Devs              \* subset of {"ShallowCopyPath", "StaticScratch", "MaskQueryInPlace", "CachedDefaultManager"}

G(n) == <<"g", n>>
In(o, p) == <<"in", o, p>>
P(t, n) == <<"p", t, n>>
Rd(l) == <<"r", l>>
Wr(l) == <<"w", l>>

\* ---------------------------------------------------------------- footprints (programs) of the public calls
ReadUri(o) == << Rd(In(o, "top")), Rd(In(o, "nodes")), Rd(In(o, "text")) >>
Alloc(t)   == << Rd(G("mmTable")) >>                       \* the default manager's function table is read, never written
Prog(k, t) ==
  CASE k = "Parse"      -> << Rd(In("text", "chars")) >> \o Alloc(t) \o << Rd(G("consts")), Wr(P(t, "uri.top")), Wr(P(t, "uri.nodes")) >>
    [] k = "AddBase"    -> ReadUri("ref") \o ReadUri("base") \o Alloc(t)
                           \o << Wr(P(t, "dest.top")) >>
                           \o (IF "ShallowCopyPath" \in Devs
                               THEN << Wr(In("base", "nodes")) >>          \* dot removal would write `reserved` of the SHARED nodes
                               ELSE << Wr(P(t, "dest.nodes")), Rd(P(t, "dest.nodes")), Wr(P(t, "dest.nodes")) >>)   \* copy, then dot removal on the copy
    [] k = "RemoveBase" -> ReadUri("src") \o ReadUri("base") \o Alloc(t) \o << Rd(G("consts")), Wr(P(t, "dest.top")), Wr(P(t, "dest.nodes")) >>
    [] k = "Equals"     -> ReadUri("ref") \o ReadUri("base")
    [] k = "ToString"   -> ReadUri("base") \o (IF "StaticScratch" \in Devs THEN << Wr(G("scratch")), Rd(G("scratch")) >> ELSE <<>>) \o << Wr(P(t, "buffer")) >>
    [] k = "MaskReq"    -> << Rd(In("base", "top")), Wr(P(t, "copy.top")) >>           \* shallow private copy of the const URI
                           \o (IF "MaskQueryInPlace" \in Devs THEN << Wr(In("base", "nodes")) >> ELSE << Rd(In("base", "nodes")), Rd(In("base", "text")) >>)
                           \o << Wr(P(t, "mask")) >>
    [] k = "Normalize"  -> << Rd(P(t, "uri.top")), Rd(P(t, "uri.nodes")) >> \o Alloc(t) \o << Wr(P(t, "uri.nodes")), Wr(P(t, "uri.top")) >>   \* on the thread's own URI
    [] k = "Compose"    -> << Rd(In("qlist", "nodes")), Rd(In("qlist", "text")), Wr(P(t, "buffer")) >>
    [] k = "Dissect"    -> << Rd(In("text", "chars")) >> \o Alloc(t) \o << Wr(P(t, "qlist")) >>
    [] k = "Escape"     -> << Rd(In("text", "chars")), Wr(P(t, "buffer")) >>
    [] k = "MmCall"     -> (IF "CachedDefaultManager" \in Devs THEN << Rd(G("mmTable")), Wr(G("mmTable")) >> ELSE << Rd(G("mmTable")) >>) \o << Wr(P(t, "block")) >>
    [] OTHER -> <<>>

Shared(l) == l[1] # "p"

VARIABLES todo,     \* todo[t]: sequence of call kinds still to run (head = current)
          pc,       \* pc[t]: index of the next micro-step in the current call (0 = not started)
          acc,      \* set of <<loc, thread, op>>: every access to a shared location so far
          tainted,  \* shared locations written by somebody, with the writer: set of <<loc, thread>>
          dirty     \* threads that read a value written by another thread (their result is not the single-threaded one)
vars == <<todo, pc, acc, tainted, dirty>>

Init == /\ todo \in [Threads -> UNION { [1..n -> Kinds] : n \in 1..CallsPerThread }]
        /\ pc = [t \in Threads |-> 1]
        /\ acc = {} /\ tainted = {} /\ dirty = {}

Step(t) ==
  /\ todo[t] # <<>>
  /\ LET prog == Prog(Head(todo[t]), t) IN
     IF pc[t] > Len(prog)
     THEN /\ todo' = [todo EXCEPT ![t] = Tail(@)] /\ pc' = [pc EXCEPT ![t] = 1]      \* End: the call returns
          /\ UNCHANGED <<acc, tainted, dirty>>
     ELSE LET op == prog[pc[t]][1]  l == prog[pc[t]][2] IN
          /\ pc' = [pc EXCEPT ![t] = @ + 1] /\ UNCHANGED todo
          /\ acc' = IF Shared(l) THEN acc \cup {<<l, t, op>>} ELSE acc
          /\ tainted' = IF op = "w" /\ Shared(l) THEN tainted \cup {<<l, t>>} ELSE tainted
          /\ dirty' = IF op = "r" /\ (\E u \in Threads : u # t /\ <<l, u>> \in tainted) THEN dirty \cup {t} ELSE dirty
Next == \E t \in Threads : Step(t)
Spec == Init /\ [][Next]_vars

\* ---------------------------------------------------------------- the property
NoRace == \A a \in acc, b \in acc : (a[1] = b[1] /\ a[2] # b[2]) => (a[3] = "r" /\ b[3] = "r")
ResultsSequential == dirty = {}
NoGlobalWrite == \A a \in acc : a[1][1] = "g" => a[3] = "r"          \* "the library itself holds no writable global or static data"
NoInputWrite  == \A a \in acc : a[1][1] = "in" => a[3] = "r"
=============================================================================
