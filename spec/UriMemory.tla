------------------------------ MODULE UriMemory ------------------------------
(* C15: a memory manager completed from a backend that offers only malloc and  *)
(* free (uriCompleteMemoryManager).  The machine below is the DESIGN of that    *)
(* wrapper (size header in front of every block, realloc by malloc+copy+free,  *)
(* calloc/reallocarray by multiplication with overflow check) over an abstract *)
(* backend that may fail at any call; MC_Memory checks that it refines the C    *)
(* allocator's contract.  Sizes live in 0..SizeMax so that "near SIZE_MAX" is   *)
(* reachable: the arithmetic is the real one, on a scaled word.                 *)
EXTENDS Naturals, Integers, Sequences, FiniteSets, TLC
CONSTANTS SizeMax,        \* the scaled SIZE_MAX
          Hdr,            \* the scaled sizeof(size_t)
          MaxLive         \* bound on simultaneously live user blocks (model only)

ENOMEM == 12
NoBlock == 0

\* user blocks: id -> [size (usable, as requested), cap (what the header says), bid, tag (content identity), zero (known zeroed)]
\* backend blocks: bid -> size
VARIABLES ub, bb, nextId, nextBid, ret, errno, lastOp
mvars == <<ub, bb, nextId, nextBid, ret, errno, lastOp>>

MInit == ub = <<>> /\ bb = <<>> /\ nextId = 1 /\ nextBid = 1 /\ ret = NoBlock /\ errno = 0 /\ lastOp = <<"init">>
Live == DOMAIN ub
Put(f, k, v) == [x \in DOMAIN f \cup {k} |-> IF x = k THEN v ELSE f[x]]
Drop(f, k) == [x \in DOMAIN f \ {k} |-> f[x]]

\* ---- the wrapper's malloc: header overflow check, one backend malloc (which may fail)
DoMalloc(n, bok, zero, op) ==
  IF n > SizeMax - Hdr THEN ret' = NoBlock /\ errno' = ENOMEM /\ UNCHANGED <<ub, bb, nextId, nextBid>> /\ lastOp' = op
  ELSE IF ~bok THEN ret' = NoBlock /\ errno' = ENOMEM /\ UNCHANGED <<ub, bb, nextId, nextBid>> /\ lastOp' = op
  ELSE /\ bb' = Put(bb, nextBid, n + Hdr) /\ ub' = Put(ub, nextId, [size |-> n, cap |-> n, bid |-> nextBid, tag |-> nextId, zero |-> zero])
       /\ ret' = nextId /\ nextId' = nextId + 1 /\ nextBid' = nextBid + 1 /\ errno' = 0 /\ lastOp' = op
Malloc(n, bok) == Cardinality(Live) < MaxLive /\ DoMalloc(n, bok, FALSE, <<"malloc", n, bok>>)
DoFree(p, op) == /\ ub' = Drop(ub, p) /\ bb' = Drop(bb, ub[p].bid) /\ ret' = NoBlock /\ errno' = 0 /\ UNCHANGED <<nextId, nextBid>> /\ lastOp' = op
Free(p) == IF p = NoBlock THEN UNCHANGED <<ub, bb, nextId, nextBid>> /\ ret' = NoBlock /\ errno' = 0 /\ lastOp' = <<"free", 0>>
           ELSE p \in Live /\ DoFree(p, <<"free", p>>)
Calloc(a, b, bok) == /\ Cardinality(Live) < MaxLive
                     /\ IF a # 0 /\ a * b > SizeMax         \* the product does not fit the word
                        THEN ret' = NoBlock /\ errno' = ENOMEM /\ UNCHANGED <<ub, bb, nextId, nextBid>> /\ lastOp' = <<"calloc", a, b>>
                        ELSE DoMalloc(a * b, bok, TRUE, <<"calloc", a, b, bok>>)
\* realloc: NULL -> malloc; size 0 -> free; fits the recorded capacity -> same block; else malloc + copy + free
DoRealloc(p, n, bok, op) ==
  IF p = NoBlock THEN Cardinality(Live) < MaxLive /\ DoMalloc(n, bok, FALSE, op)
  ELSE /\ p \in Live
       /\ IF n = 0 THEN DoFree(p, op)
          ELSE IF n <= ub[p].cap THEN ub' = [ub EXCEPT ![p].size = n] /\ ret' = p /\ errno' = 0 /\ UNCHANGED <<bb, nextId, nextBid>> /\ lastOp' = op
          ELSE IF n > SizeMax - Hdr \/ ~bok THEN ret' = NoBlock /\ errno' = ENOMEM /\ UNCHANGED <<ub, bb, nextId, nextBid>> /\ lastOp' = op
          ELSE /\ bb' = Put(Drop(bb, ub[p].bid), nextBid, n + Hdr)
               /\ ub' = Put(Drop(ub, p), nextId, [size |-> n, cap |-> n, bid |-> nextBid, tag |-> ub[p].tag, zero |-> FALSE])
               /\ ret' = nextId /\ nextId' = nextId + 1 /\ nextBid' = nextBid + 1 /\ errno' = 0 /\ lastOp' = op
Realloc(p, n, bok) == DoRealloc(p, n, bok, <<"realloc", p, n, bok>>)
ReallocArray(p, a, b, bok) ==
  IF a # 0 /\ a * b > SizeMax THEN (p = NoBlock \/ p \in Live) /\ ret' = NoBlock /\ errno' = ENOMEM /\ UNCHANGED <<ub, bb, nextId, nextBid>> /\ lastOp' = <<"reallocarray", p, a, b>>
  ELSE DoRealloc(p, a * b, bok, <<"reallocarray", p, a, b, bok>>)

\* ---- the contract of the C allocator that the design must satisfy
\* every live user block sits in its own live backend block, which is large enough for header + full size
Disjoint == \A p, q \in Live : p # q => ub[p].bid # ub[q].bid
Backed == \A p \in Live : ub[p].bid \in DOMAIN bb /\ bb[ub[p].bid] >= ub[p].size + Hdr /\ ub[p].cap >= ub[p].size /\ bb[ub[p].bid] >= ub[p].cap + Hdr
NoBackendLeak == Cardinality(DOMAIN bb) = Cardinality(Live)        \* in particular: nothing stays allocated once everything is freed
=============================================================================
