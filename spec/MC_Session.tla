----------------------------- MODULE MC_Session -----------------------------
(* All histories of the session machine up to a depth, over a few slots,     *)
(* buffers and texts: the "histories" quantifier of C07 and C12.  Checked:    *)
(*  - OwnerIndependent, DepsAlive (C12 on the design: what an owning URI      *)
(*    holds never depends on a caller buffer, and nothing usable dangles);    *)
(*  - AllStable (C07/C11: every value reachable by any sequence of parse,     *)
(*    resolve, create-reference, normalize and make-owner steps reads back    *)
(*    as held and has the parsed structure);                                  *)
(*  - ScribbleLocal (action property): scribbling a buffer changes no value   *)
(*    and invalidates only slots that borrow from it.                         *)
(* With EMIT set, every behaviour prefix is written out as a script that the  *)
(* harness replays through the real library (spec -> code).                   *)
EXTENDS UriSession, TLC, Json, IOUtils, CSV

CONSTANTS NSlots, NBufs, MaxDepth, TextSet, Masks
Slots == 1..NSlots
Bufs == 1..NBufs

Texts ==
  CASE TextSet = "paths" -> { <<115,58,47,97,47,46,46,47,47,98>>,        \* s:/a/..//b     (dot removal uncovers "//")
                              <<97,47,46,46,47,98,58,99>>,               \* a/../b:c       (dot removal uncovers a ':' first segment)
                              <<115,58,47,47,104,47,120,47,121>>,        \* s://h/x/y
                              <<46,46,47,46,47,47,120>> }                \* .././/x
    [] TextSet = "auth"  -> { <<115,58,47,47,104,47,120,47,121>>,        \* s://h/x/y
                              <<115,58,47,47,104,47,120,47,122,63,113>>, \* s://h/x/z?q
                              <<47,47,103,47,46,46,47,97>>,              \* //g/../a
                              <<115,58,120,47,46,46,47,46,46,47,47,121>> } \* s:x/../..//y
    [] TextSet = "rel"   -> { <<115,58,47,97,47,98>>,                    \* s:/a/b
                              <<115,58,47,47,98>>,                       \* s://b        (authority "b")
                              <<46,47,47,98>>,                           \* .//b
                              <<83,58,47,37,52,49,47,46>>,               \* S:/%41/.
                              <<97,47,46,46,47,49,58,50>> }              \* a/../1:2    (':' first segment that does not look like a scheme)
    [] OTHER -> {}

VARIABLES st, hist
vars == <<st, hist>>
Init == st = SessionInit(Slots, Bufs) /\ hist = <<>>

Act(a, nst) == st' = nst /\ hist' = Append(hist, a) /\ Len(hist) < MaxDepth

\* symmetry reduction by hand: buffers and slots are taken in order
FirstFreeBuf == IF \E i \in Bufs : CanBuf(st, i) THEN {CHOOSE i \in Bufs : CanBuf(st, i) /\ \A j \in Bufs : CanBuf(st, j) => i <= j} ELSE {}
FirstFreeSlot == IF \E s \in Slots : ~st.slot[s].held THEN {CHOOSE s \in Slots : ~st.slot[s].held /\ \A r \in Slots : ~st.slot[r].held => s <= r} ELSE {}

ABuf == \E i \in FirstFreeBuf, t \in Texts : Act([op |-> "buf", i |-> i, text |-> t], DoBuf(st, i, t))
AParse == \E s \in FirstFreeSlot, i \in Bufs : CanParse(st, s, i) /\ Act([op |-> "parse", s |-> s, i |-> i], DoParse(st, s, i))
AMakeOwner == \E s \in Slots : CanMakeOwner(st, s) /\ ~st.slot[s].owner /\ Act([op |-> "own", s |-> s], DoMakeOwner(st, s))
ANormalize == \E s \in Slots, m \in Masks : CanNormalize(st, s) /\ Act([op |-> "norm", s |-> s, m |-> m], DoNormalize(st, s, m))
AAddBase == \E d \in FirstFreeSlot, r \in Slots, b \in Slots, o \in BOOLEAN : CanAddBase(st, d, r, b)
              /\ Act([op |-> "add", d |-> d, r |-> r, b |-> b, o |-> o], DoAddBase(st, d, r, b, o))
ARemoveBase == \E d \in FirstFreeSlot, s \in Slots, b \in Slots, md \in BOOLEAN : CanRemoveBase(st, d, s, b) /\ s # b
              /\ Act([op |-> "rem", d |-> d, s |-> s, b |-> b, md |-> md], DoRemoveBase(st, d, s, b, md))
\* (An in-place call that runs out of memory leaves a URI that may only be freed; with the caller's clean-up folded in, that step IS
\*  AFree for the machine - same successor state - so it needs no action of its own here.  Trace_Session accepts it as such: C14.)
AFree == \E s \in Slots : CanFree(st, s) /\ Act([op |-> "free", s |-> s], DoFree(st, s))
AScribble == \E i \in Bufs : CanScribble(st, i) /\ Act([op |-> "scribble", i |-> i], DoScribble(st, i))
Next == ABuf \/ AParse \/ AMakeOwner \/ ANormalize \/ AAddBase \/ ARemoveBase \/ AFree \/ AScribble

\* ------------------------------------------------------------------ properties
InvOwnerIndependent == OwnerIndependent(st)
InvDepsAlive == DepsAlive(st)
InvAllStable == AllStable(st)
\* C11 over histories: two URIs any sequence of operations can produce are equal exactly when they are the same text
InvEqualIffSameText == \A a \in Slots, b \in Slots : (st.slot[a].held /\ st.slot[b].held) =>
                          (Equal(st.slot[a].val, st.slot[b].val) <=> Recompose(st.slot[a].val) = Recompose(st.slot[b].val))
\* scribbling changes no value, and only borrowers of that buffer stop being usable
ScribbleLocal == [][ \A i \in Bufs : (st.buf[i].live /\ ~st'.buf[i].live) =>
                       \A s \in Slots : /\ st'.slot[s].val = st.slot[s].val /\ st'.slot[s].held = st.slot[s].held
                                        /\ (BufDep(i) \notin st.slot[s].deps => st'.slot[s] = st.slot[s]) ]_vars
\* make-owner keeps the value (C12: "its content equals what it was before the copy")
OwnKeepsValue == [][ \A s \in Slots : (st.slot[s].held /\ st'.slot[s].held /\ ~st.slot[s].owner /\ st'.slot[s].owner /\ st'.slot[s].deps = {} /\ hist' # hist /\ Last(hist').op = "own")
                       => st'.slot[s].val = st.slot[s].val ]_vars

\* ------------------------------------------------------------------ emission of behaviours as scripts (spec -> code)
\* one line per distinct state (VIEW: its first, i.e. shortest, history): the script and the expected final slot values
Expect == [s \in Slots |-> IF st.slot[s].held THEN [held |-> 1, usable |-> IF st.slot[s].valid THEN 1 ELSE 0, own |-> IF st.slot[s].owner THEN 1 ELSE 0,
                                                     text |-> Recompose(st.slot[s].val), val |-> st.slot[s].val]
                           ELSE [held |-> 0]]
EmitOn == "EMIT" \in DOMAIN IOEnv /\ IOEnv.EMIT # ""
InvEmit == (EmitOn /\ hist # <<>> /\ Last(hist).op \notin {"buf"}) => CSVWrite("%1$s", <<ToJson([script |-> hist, expect |-> [i \in 1..NSlots |-> Expect[i]]])>>, IOEnv.EMIT)

View == st
=============================================================================
