---------------------------- MODULE UriGrammar ----------------------------
(* RFC 3986 Appendix A ("Collected ABNF for URI") as DATA: a record Gram    *)
(* mapping every non-terminal to a regular-expression AST, laid out rule   *)
(* for rule like /repo/doc/rfc3986_grammar_only.txt.  Two independent       *)
(* semantics are given over this one datum:                                *)
(*   (a) M(g,s,i)  - denotational matcher: set of end positions            *)
(*   (b) the position automaton (Nullable / First / Follow / Step)         *)
(* The model MC_Recognizer checks that they agree on every reachable state.*)
EXTENDS UriChars, TLC

\* ---- regex-AST constructors (prefixed g: operator names are global) ------
gCls(S)        == [t |-> "cls", c |-> S]
gCh(n)         == gCls({n})
gSeq(a)        == [t |-> "seq", a |-> a]
gAlt(a)        == [t |-> "alt", a |-> a]
gRep(lo,hi,g)  == [t |-> "rep", lo |-> lo, hi |-> hi, g |-> g]   \* hi = 0 means unbounded
gStar(g)       == gRep(0,0,g)
gPlus(g)       == gRep(1,0,g)
gOpt(g)        == gRep(0,1,g)
gRef(n)        == [t |-> "ref", n |-> n]
gEps           == gSeq(<<>>)

gPct == gSeq(<<gCh(37), gCls(HEXDIG), gCls(HEXDIG)>>)           \* pct-encoded = "%" HEXDIG HEXDIG
gQ   == gOpt(gSeq(<<gCh(63), gRef("query")>>))                  \* [ "?" query ]
gF   == gOpt(gSeq(<<gCh(35), gRef("fragment")>>))               \* [ "#" fragment ]
gAuthPath == gSeq(<<gCh(47), gCh(47), gRef("authority"), gRef("pathAbempty")>>)
gSlashSegs == gStar(gSeq(<<gCh(47), gRef("segment")>>))         \* *( "/" segment )

Gram == [
  \* URI-reference = URI / relative-ref
  URIreference |-> gAlt(<<gRef("URI"), gRef("relativeRef")>>),
  \* URI = scheme ":" hier-part [ "?" query ] [ "#" fragment ]
  URI          |-> gSeq(<<gRef("scheme"), gCh(58), gRef("hierPart"), gQ, gF>>),
  \* hier-part = "//" authority path-abempty / path-absolute / path-rootless / path-empty
  hierPart     |-> gAlt(<<gAuthPath, gRef("pathAbsolute"), gRef("pathRootless"), gEps>>),
  \* relative-ref = relative-part [ "?" query ] [ "#" fragment ]
  relativeRef  |-> gSeq(<<gRef("relativePart"), gQ, gF>>),
  \* relative-part = "//" authority path-abempty / path-absolute / path-noscheme / path-empty
  relativePart |-> gAlt(<<gAuthPath, gRef("pathAbsolute"), gRef("pathNoscheme"), gEps>>),
  \* scheme = ALPHA *( ALPHA / DIGIT / "+" / "-" / "." )
  scheme       |-> gSeq(<<gCls(ALPHA), gStar(gCls(ALPHA \cup DIGIT \cup {43,45,46}))>>),
  \* authority = [ userinfo "@" ] host [ ":" port ]
  authority    |-> gSeq(<<gOpt(gSeq(<<gRef("userinfo"), gCh(64)>>)), gRef("host"), gOpt(gSeq(<<gCh(58), gRef("port")>>))>>),
  \* userinfo = *( unreserved / pct-encoded / sub-delims / ":" )
  userinfo     |-> gStar(gAlt(<<gCls(UNRES \cup SUBDEL \cup {58}), gPct>>)),
  \* host = IP-literal / IPv4address / reg-name
  host         |-> gAlt(<<gRef("IPliteral"), gRef("IPv4address"), gRef("regName")>>),
  \* port = *DIGIT
  port         |-> gStar(gCls(DIGIT)),
  \* IP-literal = "[" ( IPv6address / IPvFuture ) "]"
  IPliteral    |-> gSeq(<<gCh(91), gAlt(<<gRef("IPv6address"), gRef("IPvFuture")>>), gCh(93)>>),
  \* IPvFuture = "v" 1*HEXDIG "." 1*( unreserved / sub-delims / ":" )
  IPvFuture    |-> gSeq(<<gCls({118,86}), gPlus(gCls(HEXDIG)), gCh(46), gPlus(gCls(UNRES \cup SUBDEL \cup {58}))>>),
  h16c         |-> gSeq(<<gRef("h16"), gCh(58)>>),                              \* ( h16 ":" )
  \* IPv6address: the nine alternatives of the RFC, in order
  IPv6address  |-> gAlt(<<
      gSeq(<<gRep(6,6,gRef("h16c")), gRef("ls32")>>),
      gSeq(<<gCh(58),gCh(58), gRep(5,5,gRef("h16c")), gRef("ls32")>>),
      gSeq(<<gOpt(gRef("h16")), gCh(58),gCh(58), gRep(4,4,gRef("h16c")), gRef("ls32")>>),
      gSeq(<<gOpt(gSeq(<<gRep(0,1,gRef("h16c")), gRef("h16")>>)), gCh(58),gCh(58), gRep(3,3,gRef("h16c")), gRef("ls32")>>),
      gSeq(<<gOpt(gSeq(<<gRep(0,2,gRef("h16c")), gRef("h16")>>)), gCh(58),gCh(58), gRep(2,2,gRef("h16c")), gRef("ls32")>>),
      gSeq(<<gOpt(gSeq(<<gRep(0,3,gRef("h16c")), gRef("h16")>>)), gCh(58),gCh(58), gRef("h16c"), gRef("ls32")>>),
      gSeq(<<gOpt(gSeq(<<gRep(0,4,gRef("h16c")), gRef("h16")>>)), gCh(58),gCh(58), gRef("ls32")>>),
      gSeq(<<gOpt(gSeq(<<gRep(0,5,gRef("h16c")), gRef("h16")>>)), gCh(58),gCh(58), gRef("h16")>>),
      gSeq(<<gOpt(gSeq(<<gRep(0,6,gRef("h16c")), gRef("h16")>>)), gCh(58),gCh(58)>>) >>),
  \* h16 = 1*4HEXDIG
  h16          |-> gRep(1,4,gCls(HEXDIG)),
  \* ls32 = ( h16 ":" h16 ) / IPv4address
  ls32         |-> gAlt(<<gSeq(<<gRef("h16"), gCh(58), gRef("h16")>>), gRef("IPv4address")>>),
  \* IPv4address = dec-octet "." dec-octet "." dec-octet "." dec-octet
  IPv4address  |-> gSeq(<<gRef("decOctet"), gCh(46), gRef("decOctet"), gCh(46), gRef("decOctet"), gCh(46), gRef("decOctet")>>),
  \* dec-octet = DIGIT / %x31-39 DIGIT / "1" 2DIGIT / "2" %x30-34 DIGIT / "25" %x30-35
  decOctet     |-> gAlt(<<gCls(DIGIT), gSeq(<<gCls(49..57), gCls(DIGIT)>>), gSeq(<<gCh(49), gCls(DIGIT), gCls(DIGIT)>>),
                         gSeq(<<gCh(50), gCls(48..52), gCls(DIGIT)>>), gSeq(<<gCh(50), gCh(53), gCls(48..53)>>)>>),
  \* reg-name = *( unreserved / pct-encoded / sub-delims )
  regName      |-> gStar(gAlt(<<gCls(UNRES \cup SUBDEL), gPct>>)),
  \* path-abempty = *( "/" segment )
  pathAbempty  |-> gSlashSegs,
  \* path-absolute = "/" [ segment-nz *( "/" segment ) ]
  pathAbsolute |-> gSeq(<<gCh(47), gOpt(gSeq(<<gRef("segmentNz"), gSlashSegs>>))>>),
  \* path-noscheme = segment-nz-nc *( "/" segment )
  pathNoscheme |-> gSeq(<<gRef("segmentNzNc"), gSlashSegs>>),
  \* path-rootless = segment-nz *( "/" segment )
  pathRootless |-> gSeq(<<gRef("segmentNz"), gSlashSegs>>),
  segment      |-> gStar(gRef("pchar")),
  segmentNz    |-> gPlus(gRef("pchar")),
  \* segment-nz-nc = 1*( unreserved / pct-encoded / sub-delims / "@" )
  segmentNzNc  |-> gPlus(gAlt(<<gCls(UNRES \cup SUBDEL \cup {64}), gPct>>)),
  \* pchar = unreserved / pct-encoded / sub-delims / ":" / "@"
  pchar        |-> gAlt(<<gCls(PCHARC), gPct>>),
  \* query = *( pchar / "/" / "?" )      fragment = *( pchar / "/" / "?" )
  query        |-> gStar(gAlt(<<gCls(QUERYC), gPct>>)),
  fragment     |-> gStar(gAlt(<<gCls(QUERYC), gPct>>))
]

RuleNames == DOMAIN Gram

\* ======================= (a) denotational matcher ==========================
\* M(g,s,i): set of positions j such that s[i..j-1] matches g   (1-based, j = next unread)
RECURSIVE M(_,_,_), MSeq(_,_,_,_), MRep(_,_,_,_,_)
M(g, s, i) ==
  CASE g.t = "cls" -> IF i <= Len(s) /\ s[i] \in g.c THEN {i+1} ELSE {}
    [] g.t = "seq" -> MSeq(g.a, 1, s, {i})
    [] g.t = "alt" -> UNION { M(g.a[k], s, i) : k \in 1..Len(g.a) }
    [] g.t = "rep" -> MRep(g, 0, s, {i}, IF g.lo = 0 THEN {i} ELSE {})
    [] g.t = "ref" -> M(Gram[g.n], s, i)
MSeq(a, k, s, F) ==
  IF k > Len(a) \/ F = {} THEN F
  ELSE MSeq(a, k+1, s, UNION { M(a[k], s, j) : j \in F })
\* F = frontier after n iterations, acc = accepted ends so far
MRep(g, n, s, F, acc) ==
  IF F = {} \/ (g.hi # 0 /\ n >= g.hi) THEN acc
  ELSE LET F2 == UNION { {e \in M(g.g, s, j) : e > j} : j \in F }
           n2 == n + 1
       IN MRep(g, n2, s, F2, IF n2 >= g.lo THEN acc \cup F2 ELSE acc)

Matches(rule, s) == (Len(s)+1) \in M(Gram[rule], s, 1)
Accepts(s) == Matches("URIreference", s)

\* ======================= (b) position automaton ============================
\* A position is the path (sequence of child indices) from the root to a leaf
\* `cls` node; bounded repetitions carry their iteration index in the path.
END == <<999>>

RECURSIVE NodeAt(_,_,_)
NodeAt(g, path, k) ==
  IF k > Len(path) THEN g
  ELSE CASE g.t = "seq" -> NodeAt(g.a[path[k]], path, k+1)
         [] g.t = "alt" -> NodeAt(g.a[path[k]], path, k+1)
         [] g.t = "rep" -> NodeAt(g.g, path, k+1)
         [] g.t = "ref" -> NodeAt(Gram[g.n], path, k+1)
Root == gRef("URIreference")
Node(path) == NodeAt(Root, path, 1)

RECURSIVE Nullable(_)
Nullable(g) ==
  CASE g.t = "cls" -> FALSE
    [] g.t = "seq" -> \A k \in 1..Len(g.a) : Nullable(g.a[k])
    [] g.t = "alt" -> \E k \in 1..Len(g.a) : Nullable(g.a[k])
    [] g.t = "rep" -> g.lo = 0 \/ Nullable(g.g)
    [] g.t = "ref" -> Nullable(Gram[g.n])

RECURSIVE First(_,_), FirstSeq(_,_,_)
First(g, p) ==
  CASE g.t = "cls" -> {p}
    [] g.t = "seq" -> FirstSeq(g, p, 1)
    [] g.t = "alt" -> UNION { First(g.a[k], Append(p,k)) : k \in 1..Len(g.a) }
    [] g.t = "rep" -> First(g.g, Append(p,1))
    [] g.t = "ref" -> First(Gram[g.n], Append(p,0))
FirstSeq(g, p, k) ==
  IF k > Len(g.a) THEN {}
  ELSE First(g.a[k], Append(p,k)) \cup (IF Nullable(g.a[k]) THEN FirstSeq(g, p, k+1) ELSE {})
RECURSIVE RestNullable(_,_)
RestNullable(g, k) == k > Len(g.a) \/ (Nullable(g.a[k]) /\ RestNullable(g, k+1))

RECURSIVE Up(_,_)
\* positions that may follow once the subtree at SubSeq(path,1,d) is complete
Up(path, d) ==
  IF d = 0 THEN {END}
  ELSE LET pre == SubSeq(path, 1, d-1)
           P   == Node(pre)
           x   == path[d]
       IN CASE P.t = "seq" -> FirstSeq(P, pre, x+1) \cup (IF RestNullable(P, x+1) THEN Up(path, d-1) ELSE {})
            [] P.t = "alt" -> Up(path, d-1)
            [] P.t = "ref" -> Up(path, d-1)
            [] P.t = "rep" ->
                 LET bounded == P.hi # 0
                     again == IF ~bounded THEN First(P.g, Append(pre, x))
                              ELSE IF x < P.hi THEN First(P.g, Append(pre, x+1)) ELSE {}
                     exit == IF (bounded /\ x >= P.lo) \/ (~bounded) THEN Up(path, d-1) ELSE {}
                 IN again \cup exit
Follow(p) == Up(p, Len(p))
ClassOf(p) == Node(p).c

N0 == First(Root, <<>>) \cup (IF Nullable(Root) THEN {END} ELSE {})
Step(N, c) == UNION { Follow(p) : p \in {q \in N : q # END /\ c \in ClassOf(q)} }

RECURSIVE Run(_,_,_)
Run(N, s, i) == IF i > Len(s) THEN N ELSE Run(Step(N, s[i]), s, i+1)
AcceptsA(s) == END \in Run(N0, s, 1)

\* ======================= code-point partition =============================
\* All leaf classes of the grammar; two code points are equivalent iff they
\* belong to the same leaf classes.  Computed, not assumed.
RECURSIVE Leaves(_)
Leaves(g) ==
  CASE g.t = "cls" -> {g.c}
    [] g.t = "seq" -> UNION { Leaves(g.a[k]) : k \in 1..Len(g.a) }
    [] g.t = "alt" -> UNION { Leaves(g.a[k]) : k \in 1..Len(g.a) }
    [] g.t = "rep" -> Leaves(g.g)
    [] g.t = "ref" -> {}
LeafClasses == UNION { Leaves(Gram[n]) : n \in RuleNames }
CodePoints == 0..300        \* 0..255, plus 256..300 standing for every code point >= 256
Sig(c) == { S \in LeafClasses : c \in S }
RepOf(c) == CHOOSE d \in CodePoints : Sig(d) = Sig(c) /\ \A e \in CodePoints : Sig(e) = Sig(c) => d <= e
Reps == { RepOf(c) : c \in CodePoints }
=============================================================================
