---------------------------- MODULE Trace_Escape ----------------------------
(* C16: recorded uriEscape / uriUnescapeInPlace executions against UriEscape. *)
EXTENDS TraceCore, UriEscape

VEscape(x) ==
  LET e == Escape(x.in, x.sp, x.nb) IN
     FailIf(x.fault # 0, "C16", "escape wrote outside a buffer of 3n+1 (6n+1) characters")
  \o FailIf(x.fault = 0 /\ (x.out # e \/ x.ret # Len(e) \/ ~x.term), "C16", "escaped text / returned terminator position differs from the specification")
  \o FailIf(~EscapeAlphabetOK(x.out, x.sp), "C16", "output contains a character that is neither unreserved, %XX with upper-case hex, nor a requested '+'")
  \o FailIf(x.fault = 0 /\ Unescape(x.out, x.sp, 3) # (IF x.nb THEN NormBreaks(x.in, 1) ELSE x.in), "C16", "unescaping the output does not restore the input")
VUnescape(x) ==
  LET u == Unescape(x.in, x.ps, x.conv) IN
     FailIf(x.fault # 0, "C16", "unescape touched memory beyond the terminator")
  \o FailIf(x.fault = 0 /\ (x.out # u \/ x.ret # Len(u) \/ ~x.term), "C16", "unescaped text / returned terminator position differs from the specification")
  \o FailIf(x.ret > Len(x.in), "C16", "unescaping lengthened the string")
V(x) == CASE x.e = "Escape" -> VEscape(x) [] x.e = "Unescape" -> VUnescape(x) [] OTHER -> Fail("C16", "unknown event")
TNext == TStep(V)
=============================================================================
