INIT Init
NEXT Next
CONSTANT MaxLen = 4
INVARIANT InvRoundTrip
INVARIANT InvValid
INVARIANT InvSize
INVARIANT InvForm
CHECK_DEADLOCK FALSE
