------------------------------ MODULE MC_Ledger ------------------------------
(* The ledger automaton explored over all short histories of requests,         *)
(* refusals and releases of up to MaxIds blocks: Balanced(Ledger(h)) holds      *)
(* exactly for histories in which every handed-out block is released exactly    *)
(* once and nothing else is released (C13, C14).                                *)
EXTENDS UriLedger, TLC
CONSTANTS MaxIds, MaxLen
VARIABLES h, handed, released, dirty
Init == h = <<>> /\ handed = {} /\ released = {} /\ dirty = FALSE
Next == /\ Len(h) < MaxLen
        /\ \/ \E id \in 1..MaxIds : id \notin handed /\ h' = Append(h, <<"m", id, 8, 1, 0>>) /\ handed' = handed \cup {id} /\ UNCHANGED <<released, dirty>>
           \/ h' = Append(h, <<"m", 0, 8, 0, 0>>) /\ UNCHANGED <<handed, released, dirty>>                                  \* refused request
           \/ \E id \in 0..MaxIds : h' = Append(h, <<"f", id, 0, 1, 0>>) /\ UNCHANGED handed
                                   /\ released' = (IF id = 0 THEN released ELSE released \cup {id})
                                   /\ dirty' = (dirty \/ (id # 0 /\ (id \notin handed \/ id \in released)))
           \/ \E old \in handed \ released, id \in 1..MaxIds : id \notin handed /\ h' = Append(h, <<"r", id, 8, 1, old>>)
                                   /\ handed' = handed \cup {id} /\ released' = released \cup {old} /\ UNCHANGED dirty
Characterisation == Balanced(Ledger(h)) <=> (~dirty /\ released = handed)
=============================================================================
