----------------------------- MODULE Trace_Query -----------------------------
(* C17: recorded query composition / dissection against UriQuery.             *)
EXTENDS TraceCore, UriQuery, UriLedger

ListOf(j) == [i \in 1..Len(j) |-> Item(j[i][1], j[i][2])]
IntMaxMillions == 2147                      \* INT_MAX in units of 10^6 characters (TLC integers are 32 bit)

VComposeReq(x) == LET ql == ListOf(x.list) IN
     FailIf(x.rc # 0 \/ x.req # Required(ql, x.nb), "C17", "chars-required is not the worst-case size of the list")
  \o FailIf(~x.ro, "C12", "query list modified")
VCompose(x) == LET ql == ListOf(x.list) IN
     FailIf(x.fault # 0, "C17", "composing wrote beyond maxChars (guard page hit)")
  \o FailIf(x.fault = 0 /\ ~ComposeOK(ql, x.sp, x.nb, x.cap, x.rc, x.wantw, x.written, x.cells), "C17", "outcome of composing with this capacity violates the contract")
  \o FailIf(~x.same, "C17", "guard-page layout and canary layout disagree")
  \o FailIf(~x.ro, "C12", "query list modified")
VComposeMalloc(x) == LET ql == ListOf(x.list) IN
     FailIf(x.rc # 0, "C17", "composing with the required size failed")
  \o FailIf(x.rc = 0 /\ x.out # Some(Compose(ql, x.sp, x.nb)), "C17", "composed text differs")
  \o FailIf(x.rc = 0 /\ ~QueryChars(x.out[1]), "C17", "composed text contains a character that is not legal in a query")
  \o FailIf(x.rc = 0 /\ (x.rcd # 0 \/ ListOf(x.back) # Survivors(ql, 1, x.nb)), "C17", "dissecting the composed text does not return the list")
  \o FailIf(x.rc = 0 /\ x.rcd = 0 /\ x.count # Len(x.back), "C17", "item count differs from the list length")
  \o FailIf(x.leak # 0 \/ ~Balanced(Ledger(x.mem)), "C13", "blocks of the supplied manager left outstanding or wrongly released")
VDissect(x) ==
     FailIf(x.fault # 0, "C17", "dissecting read outside the range")
  \o FailIf(x.fault = 0 /\ (x.rc # 0 \/ ListOf(x.list) # Dissect(x.in, x.ps, x.conv)), "C17", "dissected list differs")
  \o FailIf(x.rc = 0 /\ x.count # Len(x.list), "C17", "item count differs from the list length")
  \o FailIf(x.leak # 0 \/ ~Balanced(Ledger(x.mem)), "C13", "blocks of the supplied manager left outstanding or wrongly released")
\* key and value of km / vm million characters: the true worst-case size does not fit INT_MAX => refusal, never a wrapped figure
VGiant(x) == LET need == Worst(x.nb) * x.km + Worst(x.nb) * x.vm IN
     FailIf(need > IntMaxMillions /\ x.rc = 0, "C17", "required size exceeds INT_MAX but a (wrapped) figure was returned with success")
  \o FailIf(x.rc = 0 /\ (~x.nonneg \/ x.reqm < need), "C17", "reported size is smaller than the worst case")

V(x) == CASE x.e = "ComposeReq" -> VComposeReq(x) [] x.e = "Compose" -> VCompose(x) [] x.e = "ComposeMalloc" -> VComposeMalloc(x)
          [] x.e = "Dissect" -> VDissect(x) [] x.e = "ComposeReqGiant" -> VGiant(x) [] OTHER -> Fail("C17", "unknown event")
TNext == TStep(V)
=============================================================================
