----------------------------- MODULE Trace_Query -----------------------------
(* C17: recorded query composition / dissection against UriQuery.             *)
EXTENDS TraceCore, UriQuery, UriLedger

ListOf(j) == [i \in 1..Len(j) |-> Item(j[i][1], j[i][2])]
IntMaxMillions == 2147                      \* INT_MAX in units of 10^6 characters (TLC integers are 32 bit)

VComposeReq(x) == LET ql == ListOf(x.list) IN
     FailIf(x.rc # 0 \/ x.req # Required(ql, x.nb), "C17", "chars-required is not the worst-case size of the list")
  \o FailIf(~x.ro, "C12", "query list modified")
VCompose(x) == LET ql == ListOf(x.list) IN
     FailIf(x.fault # 0, "C17", "composing wrote beyond maxChars (guard page hit)")
  \o FailIf(x.fault = 0 /\ ~ComposeOK(ql, x.sp, x.nb, x.cap, x.rc, x.wantw, x.written, x.cells), "C17", "outcome of composing with this capacity violates the contract")
  \o FailIf(~x.same, "C17", "guard-page layout and canary layout disagree")
  \o FailIf(~x.ro, "C12", "query list modified")
VComposeMalloc(x) == LET ql == ListOf(x.list) IN
     FailIf(x.rc # 0, "C17", "composing with the required size failed")
  \o FailIf(x.rc = 0 /\ x.out # Some(Compose(ql, x.sp, x.nb)), "C17", "composed text differs")
  \o FailIf(x.rc = 0 /\ ~QueryChars(x.out[1]), "C17", "composed text contains a character that is not legal in a query")
  \o FailIf(x.rc = 0 /\ (x.rcd # 0 \/ ListOf(x.back) # Survivors(ql, 1, x.nb)), "C17", "dissecting the composed text does not return the list")
  \o FailIf(x.rc = 0 /\ x.rcd = 0 /\ x.count # Len(x.back), "C17", "item count differs from the list length")
  \o FailIf(x.leak # 0 \/ ~Balanced(Ledger(x.mem)), "C13", "blocks of the supplied manager left outstanding or wrongly released")
VDissect(x) ==
     FailIf(x.fault # 0, "C17", "dissecting read outside the range")
  \o FailIf(x.fault = 0 /\ (x.rc # 0 \/ ListOf(x.list) # Dissect(x.in, x.ps, x.conv)), "C17", "dissected list differs")
  \o FailIf(x.rc = 0 /\ ~x.nocount /\ x.count # Len(x.list), "C17", "item count differs from the list length")
  \o FailIf(x.leak # 0 \/ ~Balanced(Ledger(x.mem)), "C13", "blocks of the supplied manager left outstanding or wrongly released")
\* the allocating calls with a request of the supplied manager refused: a REPORTED success is the fault-free result; a refused request ends
\* in the out-of-memory code (C14) with nothing left outstanding (C13)
VDissectFault(x) ==
     FailIf(x.rc = 0 /\ (ListOf(x.list) # Dissect(x.in, x.ps, x.conv) \/ x.count # Len(x.list)), "C17", "dissection reported success under a failing manager but the list is not the query's")
  \o FailIf(x.refused /\ x.rc # 3, "C14", "a request was refused but dissection did not return the out-of-memory code")
  \o FailIf(~x.refused /\ x.rc # 0, "C17", "dissection failed although no request was refused")
  \o FailIf(x.leak # 0, "C13", "blocks of the supplied manager left outstanding")
VComposeFault(x) == LET ql == ListOf(x.list) IN
     FailIf(x.rc = 0 /\ x.out # Some(Compose(ql, x.sp, x.nb)), "C17", "composing reported success under a failing manager but the text is not the list's")
  \o FailIf(x.refused /\ x.rc # 3, "C14", "a request was refused but composing did not return the out-of-memory code")
  \o FailIf(~x.refused /\ x.rc # 0, "C17", "composing failed although no request was refused")
  \o FailIf(x.leak # 0, "C13", "blocks of the supplied manager left outstanding")
\* a list of x.items plain keys of x.klen characters whose worst-case size (6 per character with break normalization) fits INT_MAX: measured,
\* allocated and composed for real - by either character type (the limit is one of characters, not bytes)
VHuge(x) == LET fits == ((6 * (x.klen \div 1000) * x.items) \div 1000) < IntMaxMillions IN
     FailIf(fits /\ (x.rcreq # 0 \/ x.rc # 0), "C17", "a list whose worst-case size fits INT_MAX was refused")
  \o FailIf(x.rc = 0 /\ (x.outlen # x.items * x.klen + x.items - 1 \/ ~x.textOK), "C17", "the composed text of the huge list is not the list's")
  \o FailIf(x.leak # 0, "C13", "blocks of the supplied manager left outstanding")
\* key and value of km / vm million characters: the true worst-case size does not fit INT_MAX => refusal, never a wrapped figure
VGiant(x) == LET need == Worst(x.nb) * x.km + Worst(x.nb) * x.vm IN
     FailIf(need > IntMaxMillions /\ x.rc = 0, "C17", "required size exceeds INT_MAX but a (wrapped) figure was returned with success")
  \o FailIf(x.rc = 0 /\ (~x.nonneg \/ x.reqm < need), "C17", "reported size is smaller than the worst case")

\* the allocating variant on such a list: refused, and no string handed out
\* (an implementation that sizes the text exactly instead of by the worst case may succeed - then with the right text)
VGiantMalloc(x) == FailIf(Worst(x.nb) * x.km + Worst(x.nb) * x.vm > IntMaxMillions /\ ~((x.rc # 0 /\ x.untouched) \/ (x.rc = 0 /\ x.textOK)), "C17", "the allocating variant neither refused a list whose worst-case size exceeds INT_MAX (handing out nothing) nor composed it correctly")

\* writing a text of hundreds of millions of characters into 64: refused, nothing beyond the capacity
VGiantWrite(x) == FailIf(x.fault # 0 \/ x.rc = 0, "C17", "composing a text far larger than the capacity wrote beyond maxChars (or reported success)")

\* the boundary itself: the list's exact worst-case size (lengths only; keys share one buffer) is within 3 of INT_MAX.
\* TLC integers are 32 bit: sizes are kept as <<hi, lo>> in base 2^20.
B20 == 1048576
IntMaxPair == <<2047, 1048575>>
AddTo(p, n) == <<p[1] + (p[2] + n) \div B20, (p[2] + n) % B20>>
RECURSIVE SumItems(_,_,_,_)
SumItems(items, i, nb, acc) == IF i > Len(items) THEN acc
   ELSE SumItems(items, i + 1, nb, AddTo(AddTo(acc, (IF i > 1 THEN 1 ELSE 0) + Worst(nb) * items[i][1]), IF items[i][2] = 1 THEN 1 + Worst(nb) * items[i][3] ELSE 0))
PairGt(a, b) == a[1] > b[1] \/ (a[1] = b[1] /\ a[2] > b[2])
VBoundary(x) == LET need == SumItems(x.items, 1, x.nb, <<0, 0>>) IN
     FailIf(PairGt(need, IntMaxPair) /\ x.rc = 0, "C17", "the exact worst-case size exceeds INT_MAX but the measuring call succeeded (with a wrapped figure)")
  \o FailIf(~PairGt(need, IntMaxPair) /\ x.rc = 0 /\ (~x.nonneg \/ <<x.reqhi, x.reqlo>> # need), "C17", "reported size is not the worst-case size")
  \o FailIf(~PairGt(need, IntMaxPair) /\ x.rc # 0, "C17", "a size that fits INT_MAX was refused")

\* the allocating variant needs the figure plus one for the terminator: a figure of INT_MAX or more is refused, nothing is handed out
VBoundaryMalloc(x) == LET need == SumItems(x.items, 1, x.nb, <<0, 0>>) IN
     FailIf((PairGt(need, IntMaxPair) \/ need = IntMaxPair) /\ ~((x.rc # 0 /\ x.untouched) \/ (x.rc = 0 /\ x.textOK)), "C17", "the allocating variant neither refused a list whose worst-case size plus terminator exceeds INT_MAX (handing out nothing) nor composed it correctly")

V(x) == CASE x.e = "ComposeReqBoundary" -> VBoundary(x) [] x.e = "ComposeMallocBoundary" -> VBoundaryMalloc(x) [] x.e = "ComposeReq" -> VComposeReq(x) [] x.e = "Compose" -> VCompose(x) [] x.e = "ComposeMalloc" -> VComposeMalloc(x)
          [] x.e = "Dissect" -> VDissect(x) [] x.e = "ComposeMallocHuge" -> VHuge(x) [] x.e = "DissectFault" -> VDissectFault(x) [] x.e = "ComposeFault" -> VComposeFault(x) [] x.e = "ComposeReqGiant" -> VGiant(x) [] x.e = "ComposeMallocGiant" -> VGiantMalloc(x) [] x.e = "ComposeGiantWrite" -> VGiantWrite(x) [] OTHER -> Fail("C17", "unknown event")
TNext == TStep(V)
=============================================================================
