---------------------------- MODULE UriNormalize ----------------------------
(* Syntax-based normalization, RFC 3986 section 6.2.2 (C08, C09).            *)
EXTENDS UriPath

M_SCHEME == 1  M_USERINFO == 2  M_HOST == 4  M_PATH == 8  M_QUERY == 16  M_FRAGMENT == 32  M_ALL == 63
HasBit(m, b) == (m \div b) % 2 = 1

\* percent-encoding normalization: triplets of unreserved characters decoded, others with upper-case hex
RECURSIVE PctNorm(_)
PctNorm(t) ==
  IF t = <<>> THEN <<>>
  ELSE IF t[1] = cPCT /\ Len(t) >= 3 /\ t[2] \in HEXDIG /\ t[3] \in HEXDIG THEN
       LET c == HexVal(t[2]) * 16 + HexVal(t[3]) IN
       (IF c \in UNRES THEN <<c>> ELSE <<cPCT, HexUpChar(c \div 16), HexUpChar(c % 16)>>) \o PctNorm(From(t, 4))
  ELSE <<t[1]>> \o PctNorm(Tail(t))
\* registered name: additionally letters (also decoded ones) in lower case; the hex digits of remaining triplets stay upper case
RECURSIVE HostNorm(_)
HostNorm(t) ==
  IF t = <<>> THEN <<>>
  ELSE IF t[1] = cPCT /\ Len(t) >= 3 /\ t[2] \in HEXDIG /\ t[3] \in HEXDIG THEN
       LET c == HexVal(t[2]) * 16 + HexVal(t[3]) IN
       (IF c \in UNRES THEN <<ToLower(c)>> ELSE <<cPCT, HexUpChar(c \div 16), HexUpChar(c % 16)>>) \o HostNorm(From(t, 4))
  ELSE <<ToLower(t[1])>> \o HostNorm(Tail(t))
OptMap(Op(_), o) == IF IsSome(o) THEN Some(Op(o[1])) ELSE None

\* alt = FALSE: a relative-path reference whose dot segments cancel completely stays "." (never empty, never absolute: C09);
\* alt = TRUE : it becomes the empty path (the literal reading of "removes dot segments", which C08 alone would also allow)
CancelsCompletely(v) ==
  IsRelPathRef(v) /\ v.segs # <<>> /\
  LET s1 == RemoveDots([i \in 1..Len(v.segs) |-> PctNorm(v.segs[i])], TRUE) IN s1 = <<>> \/ s1 = <<EMPTY>>
NormPathX(v, alt) ==
  LET segs1 == [i \in 1..Len(v.segs) |-> PctNorm(v.segs[i])]
      rel   == IsRelPathRef(v)
      s1    == RemoveDots(segs1, rel)
  IN Canon([v EXCEPT !.segs = IF CancelsCompletely(v) THEN (IF alt THEN <<>> ELSE <<DOT>>) ELSE s1])
NormPath(v) == NormPathX(v, FALSE)

NormalizeX(v, m, alt) ==
  LET v1 == IF HasBit(m, M_SCHEME) THEN [v EXCEPT !.sc = OptMap(LowerText, v.sc)] ELSE v
      v2 == IF HasBit(m, M_USERINFO) THEN [v1 EXCEPT !.ui = OptMap(PctNorm, v1.ui)] ELSE v1
      v3 == IF HasBit(m, M_HOST) THEN
               (IF v2.hk = "reg" THEN [v2 EXCEPT !.ht = HostNorm(v2.ht)]
                ELSE IF v2.hk = "fut" THEN [v2 EXCEPT !.ht = LowerText(v2.ht)] ELSE v2)
            ELSE v2
      v4 == IF HasBit(m, M_PATH) THEN NormPathX(v3, alt) ELSE v3
      v5 == IF HasBit(m, M_QUERY) THEN [v4 EXCEPT !.q = OptMap(PctNorm, v4.q)] ELSE v4
  IN IF HasBit(m, M_FRAGMENT) THEN [v5 EXCEPT !.f = OptMap(PctNorm, v5.f)] ELSE v5
Normalize(v, m) == NormalizeX(v, m, FALSE)

IsNormal(v) == Normalize(v, M_ALL) = v
\* the mask-required query: any sufficient mask that is zero only for normal forms
MaskOK(v, m) == /\ m \in 0..M_ALL /\ Normalize(v, m) = Normalize(v, M_ALL) /\ (m = 0 => IsNormal(v))
=============================================================================
