------------------------------- MODULE MC_File -------------------------------
(* C18 on the specification: round trip, validity of the produced URI string   *)
(* (RFC 3986 matcher), its form, and the documented sizes, for all names up to *)
(* a bound in the documented domain.                                           *)
EXTENDS UriFile, UriLanguage
CONSTANT MaxLen
Alpha == <<97, 67, 58, 92, 47, 37, 32, 35, 63, 91, 46, 1, 255>>      \* a C : \ / % SP # ? [ . 0x01 0xff
VARIABLES f, unix
Init == f = <<>> /\ unix \in BOOLEAN
Next == Len(f) < MaxLen /\ (\E i \in 1..Len(Alpha) : f' = Append(f, Alpha[i])) /\ UNCHANGED unix
InDomain == IF unix THEN UnixDomain(f) ELSE WinDomain(f)
u == ToUri(f, unix)
InvRoundTrip == InDomain => ToFilename(u, unix) = f
InvValid == InDomain => Accepts(u)
InvSize == InDomain => Len(u) + 1 <= (IF unix THEN 7 ELSE 8) + 3 * Len(f) + 1 /\ Len(ToFilename(u, unix)) <= Len(u)
InvForm == InDomain =>
   IF unix THEN (IF f # <<>> /\ f[1] = cSL THEN StartsW(u, FILE3) ELSE ~StartsW(u, FILE0))
   ELSE IF IsDriveAbs(f) THEN StartsW(u, FILE3 \o <<f[1], cCOLON>>)
   ELSE IF IsUnc(f) THEN StartsW(u, FILE2) /\ ~StartsW(u, FILE3)
   ELSE ~StartsW(u, FILE0)
\* short forms accepted on input
ASSUME ToFilename(<<102,105,108,101,58,47,120>>, TRUE) = <<47,120>>                     \* file:/x  -> /x
ASSUME ToFilename(<<102,105,108,101,58,99,58,47,120>>, FALSE) = <<99,58,92,120>>        \* file:c:/x -> c:\x
ASSUME ToFilename(FILE3 \o <<67,58,47,120>>, FALSE) = <<67,58,92,120>>                  \* file:///C:/x -> C:\x
ASSUME ToFilename(FILE2 \o <<115,47,104>>, FALSE) = <<92,92,115,92,104>>                \* file://s/h -> \\s\h
=============================================================================
