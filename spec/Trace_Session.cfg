INIT SInit
NEXT SNext
CHECK_DEADLOCK FALSE
