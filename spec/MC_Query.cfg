INIT Init
NEXT Next
CONSTANTS MaxItems = 2  MaxLen = 1  IntMax = 20
INVARIANT InvRoundTrip
INVARIANT InvSufficient
INVARIANT InvAlphabet
INVARIANT InvRefusalNeeded
INVARIANT InvCount
CHECK_DEADLOCK FALSE
