INIT Init
NEXT Next
INVARIANT NeverBeyond
INVARIANT Contract
CONSTANTS MaxPieces = 5  MaxPieceLen = 3  MaxCap = 18
CHECK_DEADLOCK FALSE
