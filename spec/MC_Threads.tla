----------------------------- MODULE MC_Threads -----------------------------
EXTENDS UriThreads
AllKinds == {"Parse", "AddBase", "RemoveBase", "Equals", "ToString", "MaskReq", "Normalize", "Compose", "Dissect", "Escape", "MmCall"}
=============================================================================
