--------------------------- MODULE UriRecognizer ---------------------------
(* The recognizer machine: the parser seen as a character-level state      *)
(* machine.  State N = set of grammar positions that may consume the next  *)
(* code point (END when the text read so far is a complete URI reference). *)
(* `pre` is a history variable (the text read), hidden by VIEW in models.  *)
EXTENDS UriLanguage, SequencesExt

VARIABLES N, pre

RInit == N = N0 /\ pre = <<>>
Feed(c) == /\ N # {}
           /\ N' = Step(N, c)
           /\ pre' = Append(pre, c)

Viable(S) == S # {}
Accepting(S) == END \in S

=============================================================================
