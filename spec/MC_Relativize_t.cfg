INIT Init
NEXT Next
CONSTANT Rich = TRUE
INVARIANT InvIdealInRelation
INVARIANT InvClosedForms
INVARIANT InvRelCodes
CHECK_DEADLOCK FALSE
ALIAS Pretty
